#!/bin/bash
# Offline self-test; nothing to compile (checks import nanite from /repo/src).
set -e
cd "$(dirname "$0")"
mkdir -p scratch evidence replays
/venv/bin/python - <<'PY'
import mc
print("tree:", mc.assert_tree())
import numpy, scipy, lmfit, h5py, sklearn, afmformats
from mc import synth
c = synth.make_curve("hertz_para", synth.truth_params("hertz_para"), n_app=50, n_ret=50)
c.fit_model()
assert c.fit_properties["success"]
print("setup ok")
PY
python3-vt -c "import json,jsonschema; jsonschema.validate(json.load(open('MANIFEST.json')), json.load(open('schemas/MANIFEST.schema.json'))); print('manifest valid')"
