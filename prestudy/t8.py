import warnings, time, itertools, sys
warnings.simplefilter("ignore")
import numpy as np
from synth import make_curve
from nanite import model as nmodel
from multiprocessing import Pool
def run(mk):
    md=nmodel.models_available[mk]
    p0=md.get_parameter_defaults()
    worst={"leastsq":0,"nelder":0}; wc={}; nfail=0; n=0; t0=time.time(); fails=[]
    for E,cp,bl,seg,n_app,wcp,method,fE,dcp,dbl in itertools.product([30,300,3e3,3e4,3e5],[0,-3e-7,5e-7],[0,2e-10,-1e-10],[0,1],[60,300],[0,5e-7],["leastsq","nelder"],[0.3,3],[-1e-7,1e-7],[-0.1,0.1]):
        truth={k:p0[k].value for k in p0}
        ek="E" if "E" in truth else "E_S"
        truth[ek]=E; truth["contact_point"]=cp; truth["baseline"]=bl
        idnt=make_curve(mk,truth,n_app=n_app,n_ret=n_app)
        fmax=np.max(idnt["force"])-bl
        pi=md.get_parameter_defaults()
        pi[ek].value=E*fE; pi["contact_point"].value=cp+dcp; pi["baseline"].value=bl+dbl*fmax
        if mk.startswith("power"):
            pi["E_L"].vary=False; pi["t"].vary=False
        try:
            idnt.fit_model(model_key=mk,params_initial=pi,segment=seg,weight_cp=wcp,method=method,preprocessing=[])
        except BaseException as e:
            nfail+=1; fails.append(("EXC",type(e).__name__,E,cp,bl,seg,n_app,wcp,method,fE,dcp,dbl)); continue
        pf=idnt.fit_properties["params_fitted"]
        errE=abs(pf[ek].value-E)/E; errcp=abs(pf["contact_point"].value-cp)/1e-6; errbl=abs(pf["baseline"].value-bl)/fmax
        segm=idnt["segment"]==seg
        errfit=np.max(np.abs(idnt["fit"][segm]-idnt["force"][segm]))/fmax
        w=max(errE,errcp,errbl,errfit); n+=1
        if w>worst[method]: worst[method]=w; wc[method]=(E,cp,bl,seg,n_app,wcp,method,fE,dcp,dbl,errE,errcp,errbl,errfit)
        if w>1e-4: nfail+=1; fails.append((E,cp,bl,seg,n_app,wcp,method,fE,dcp,dbl,round(w,6)))
    return mk,n,nfail,worst,wc,fails[:8],time.time()-t0
if __name__=="__main__":
    with Pool(5) as p:
        for r in p.map(run,["hertz_para","hertz_cone","hertz_pyr3s","sneddon_spher_approx","power_layer_clifford_2009"]):
            print(r[0],"n",r[1],"fail>1e-4",r[2],"worst",r[3],"time",r[6]); print("  ",r[4]); print("  ",r[5])
