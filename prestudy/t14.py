import warnings, itertools
warnings.simplefilter("ignore")
import numpy as np
from synth import make_curve
from nanite import model as nmodel, poc, preproc, IndentationGroup
md=nmodel.models_available["hertz_para"]; p0=md.get_parameter_defaults()
truth={k:p0[k].value for k in p0}; truth["E"]=3000; truth["contact_point"]=1.3e-6; truth["baseline"]=1e-10
def curves():
    for noise,tilt,n in itertools.product([0,2e-11],[0,3e-5,-3e-5],[200,1000]):
        yield f"syn n={noise} t={tilt} N={n}", make_curve("hertz_para",truth,n_app=n,n_ret=n,noise=noise,seed=2,tilt=tilt,innate_tip=False)
    import glob
    for f in sorted(glob.glob("/repo/tests/data/fmt-jpk-fd_s*.jpk-force")):
        try: yield f.split("/")[-1][:45], IndentationGroup(f)[0]
        except BaseException as e: print("load fail",f,e)
T=["compute_tip_position"]
for name,c in curves():
    out=[name]
    try:
        # force offset
        c.apply_preprocessing(T); f0=c["force"].copy()
        c.apply_preprocessing(T+["correct_force_offset"]); f1=c["force"]
        d=f1-f0; idp=poc.compute_poc(f0,"deviation_from_baseline")
        out.append(("foff spread/ulp", float((d.max()-d.min())/np.spacing(np.abs(f0).max())), "mean", float(np.mean(f1[:idp])/np.abs(f0).max())))
        # tip offset all methods
        for m in poc.POC_METHODS:
            c.apply_preprocessing(T); t0=c["tip position"].copy()
            det=c.apply_preprocessing(T+["correct_tip_offset"],{"correct_tip_offset":{"method":m.identifier}},ret_details=True)
            t1=c["tip position"]; d=t1-t0
            idx=poc.compute_poc(c["force"],m.identifier)
            out.append((m.identifier[:8], "spread/ulp", float((d.max()-d.min())/np.spacing(np.abs(t0).max())), "zero@idx", t1[idx]==0, 0<=idx<len(c)))
        # slope
        for reg,strat in itertools.product(["baseline","approach","all"],["shift","drift"]):
            P=T+["correct_tip_offset"]
            c.apply_preprocessing(P); f0=c["force"].copy(); tp=c["tip position"]
            c.apply_preprocessing(P+["correct_force_slope"],{"correct_force_slope":{"region":reg,"strategy":strat}}); f1=c["force"]
            ch=np.where(f1!=f0)[0]
            idp=max(2,np.argmin(np.abs(tp)))
            lo,hi=(ch.min(),ch.max()) if ch.size else (None,None)
            # slope of baseline after
            A=np.vstack([(tp if strat=="shift" else c["time"])[:idp],np.ones(idp)]).T
            s0=np.linalg.lstsq(A,f0[:idp],rcond=None)[0][0]; s1=np.linalg.lstsq(A,f1[:idp],rcond=None)[0][0]
            out.append((reg,strat,"changed",lo,hi,"idp",int(idp),"slope ratio",float(abs(s1)/(abs(s0)+1e-300))))
        # split
        c.apply_preprocessing(T+["correct_split_approach_retract"]); s=c["segment"]; sw=np.where(np.diff(s.astype(int))!=0)[0]
        out.append(("split switches",len(sw),int(sw[0])+1 if len(sw) else None,"argmin tip",int(np.argmin(c["tip position"])),"argmax F",int(np.argmax(c["force"]))))
        # smooth
        c.apply_preprocessing(T+["correct_split_approach_retract","smooth_height"])
        for col in ["height (measured)","tip position"]:
            a=np.diff(c.appr[col]); r=np.diff(c.retr[col])
            out.append(("smooth",col[:6],"appr strictly dec",bool(np.all(a<0)),"retr strictly inc",bool(np.all(r>0))))
    except BaseException as e:
        import traceback; out.append(("EXC",repr(e)[:100]))
    print(out[0]); [print("    ",o) for o in out[1:]]
