import warnings, time, itertools
warnings.simplefilter("ignore")
import numpy as np
from synth import make_curve
from nanite import model as nmodel
import copy
res=[]
for mk in ["hertz_para","hertz_cone","hertz_pyr3s","sneddon_spher_approx","power_layer_clifford_2009"]:
    md=nmodel.models_available[mk]
    p0=md.get_parameter_defaults()
    worst=0; worstcase=None; nfail=0; n=0; t0=time.time()
    for E,cp,bl,seg,n_app,wcp,method,fE,dcp in itertools.product([30,300,3e3,3e4,3e5],[0,-3e-7,5e-7],[0,2e-10,-1e-10],[0,1],[60,300],[0,5e-7],["leastsq","nelder"],[0.3,3],[-1e-7,1e-7]):
        truth={k:p0[k].value for k in p0}
        ek="E" if "E" in truth else "E_S"
        truth[ek]=E; truth["contact_point"]=cp; truth["baseline"]=bl
        idnt=make_curve(mk,truth,n_app=n_app,n_ret=n_app)
        pi=md.get_parameter_defaults()
        pi[ek].value=E*fE; pi["contact_point"].value=cp+dcp; pi["baseline"].value=0
        if mk.startswith("power"):
            pi["E_L"].vary=False; pi["t"].vary=False
        try:
            idnt.fit_model(model_key=mk,params_initial=pi,segment=seg,weight_cp=wcp,method=method,preprocessing=[])
        except BaseException as e:
            print("EXC",mk,E,cp,bl,seg,n_app,wcp,method,fE,dcp,repr(e)); nfail+=1; continue
        pf=idnt.fit_properties["params_fitted"]
        errE=abs(pf[ek].value-E)/E; errcp=abs(pf["contact_point"].value-cp)/1e-6; errbl=abs(pf["baseline"].value-bl)/ (np.nanmax(idnt["force"])-bl)
        w=max(errE,errcp,errbl); n+=1
        if w>worst: worst=w; worstcase=(E,cp,bl,seg,n_app,wcp,method,fE,dcp,errE,errcp,errbl)
        if w>1e-3: nfail+=1
    print(mk,"n",n,"fail>1e-3",nfail,"worst",worst,worstcase,"time",time.time()-t0)
