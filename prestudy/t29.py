import warnings, itertools, glob
warnings.simplefilter("ignore")
import numpy as np
from synth import make_curve
from nanite import model as nmodel, IndentationGroup
from nanite.rate.features import IndentationFeatures as IF
names=IF.get_feature_names()
frac=["feat_con_apr_flatness","feat_con_apr_size"]
signed=["feat_con_cp_curvature"]
viol=[]; n=0
def check(tag,c):
    global n
    try: f=IF.compute_features(c)
    except BaseException as e: viol.append((tag,"RAISED",repr(e)[:80])); return
    n+=1
    pos=np.max(c["force"][c["segment"]==0])>0
    for nm,v in zip(names,f):
        if np.isnan(v): continue
        if not np.isfinite(v): viol.append((tag,nm,"inf",v))
        if nm.startswith("feat_bin") and v not in (0.0,1.0): viol.append((tag,nm,v))
        if nm in frac and not (0<=v<=1): viol.append((tag,nm,v))
        if nm.startswith("feat_con") and nm not in frac+signed and v<0 and pos: viol.append((tag,nm,"neg",v))
for mk in ["hertz_para","hertz_cone","sneddon_spher_approx"]:
    md=nmodel.models_available[mk]; p0=md.get_parameter_defaults()
    for noise,n_app,xs,depth,bl in itertools.product([0,2e-11,2e-10],[60,100,700,3000],[2e-6,1e-7,0],[1e-6,1e-8],[0,-5e-10]):
        tr={k:p0[k].value for k in p0}; tr["E"]=3000; tr["baseline"]=bl
        try:
            c=make_curve(mk,tr,n_app=n_app,n_ret=n_app,noise=noise,seed=4,x_start=xs,depth=depth)
            c.fit_model(model_key=mk,preprocessing=[])
        except BaseException as e:
            continue
        check((mk,noise,n_app,xs,depth,bl),c)
for f in sorted(glob.glob("/repo/tests/data/fmt-jpk-fd_s*.jpk-force")):
    try:
        c=IndentationGroup(f)[0]; c.apply_preprocessing(["compute_tip_position","correct_force_offset","correct_tip_offset"]); c.fit_model(model_key="hertz_para")
    except BaseException as e: print("skip",f[-30:],type(e).__name__); continue
    check(f[-40:],c)
print("n",n,"viol",len(viol))
import collections
print(collections.Counter((v[1],v[2] if isinstance(v[2],str) else '') for v in viol))
for v in viol[:12]: print(v)
