import warnings, time, itertools, sys
warnings.simplefilter("ignore")
import numpy as np
from synth import make_curve
from nanite import model as nmodel, poc, preproc
md=nmodel.models_available["hertz_para"]
p0=md.get_parameter_defaults()
truth={k:p0[k].value for k in p0}; truth["E"]=3000
# C08 accuracy on clean + scaling
for mk in ["hertz_para","hertz_cone","sneddon_spher_approx"]:
  for n_app,xs in [(200,2e-6),(600,2e-6),(600,0.5e-6),(2000,4e-6)]:
    mdl=nmodel.models_available[mk]; pp=mdl.get_parameter_defaults(); tr={k:pp[k].value for k in pp}; tr["E"]=3000
    idnt=make_curve(mk,tr,n_app=n_app,n_ret=n_app,x_start=xs,depth=1e-6)
    f=idnt["force"]; x=idnt["tip position"]
    true_idx=np.argmin(np.abs(x[:n_app]-0))
    row=[]
    for m in poc.POC_METHODS:
        i0=poc.compute_poc(f.copy(),m.identifier)
        var=[]
        for s,o in [(2.0,0),(1e9,0),(0.37,0),(1,1e-9),(1,-3e-10),(1024.,0),(3.3,2e-10)]:
            var.append(int(poc.compute_poc(f*s+o,m.identifier))-int(i0))
        row.append((m.identifier[:12],int(i0)-int(true_idx),var))
    print(mk,n_app,xs,"true",true_idx); 
    for r in row: print("    ",r)
