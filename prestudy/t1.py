import time, copy, warnings
import numpy as np
import nanite
from nanite import IndentationGroup
warnings.simplefilter("ignore")
jpk="/repo/tests/data/fmt-jpk-fd_spot3-0192.jpk-force"
t=time.perf_counter()
idnt=IndentationGroup(jpk)[0]
print("load", time.perf_counter()-t, len(idnt))
t=time.perf_counter()
idnt.apply_preprocessing(["compute_tip_position","correct_force_offset","correct_tip_offset"])
print("preproc", time.perf_counter()-t)
t=time.perf_counter()
idnt.fit_model(model_key="hertz_para")
print("fit", time.perf_counter()-t, idnt.fit_properties["params_fitted"]["E"].value)
t=time.perf_counter()
r=idnt.rate_quality()
print("rate", time.perf_counter()-t, r)
# C09: settings edit then rate
idnt.fit_properties["weight_cp"]=2e-6
try:
    print("rate after edit", idnt.rate_quality(regressor="Decision Tree"))
except BaseException as e:
    print("RATE RAISED", type(e), e)
# preprocessed but not fitted
i2=IndentationGroup(jpk)[0]
i2.apply_preprocessing(["compute_tip_position"])
try:
    print("rate preproc only", i2.rate_quality())
except BaseException as e:
    print("RATE RAISED", type(e), e)
# C06: failing request remembered
i3=IndentationGroup(jpk)[0]
for k in range(2):
    try:
        i3.apply_preprocessing(["correct_tip_offset"])
        print("accepted!", i3.preprocessing, i3.fit_properties.get("preprocessing"))
    except BaseException as e:
        print("rejected", type(e).__name__, i3.preprocessing, i3.fit_properties.get("preprocessing"))
# gcf_k mutation of params_initial
i4=IndentationGroup(jpk)[0]
i4.apply_preprocessing(["compute_tip_position","correct_force_offset","correct_tip_offset"])
p=i4.get_initial_fit_parameters(model_key="hertz_para")
p["contact_point"].value=1e-7
pc=copy.deepcopy(p)
i4.fit_model(params_initial=p, gcf_k=0.5, weight_cp=False)
print("caller cp after:", p["contact_point"].value, "before", pc["contact_point"].value)
print("fitted cp", i4.fit_properties["params_fitted"]["contact_point"].value)
i4.fit_model(range_type="relative cp", range_x=[-1e-6, 1e-6])
print("caller cp after rel:", p["contact_point"].value)
