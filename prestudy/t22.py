import numpy as np, itertools, warnings
warnings.simplefilter("ignore")
from nanite.model import model_power_layer_clifford_2009 as m
R=10e-6
worst=0; wc=None; n=0; bad=0
for ES,EL,t,nuS,nuL in itertools.product([1,30,3e3,3e5],[0.01,20,1000],[1e-12,1e-8,1e-7,1e-6,1e-5],[0,0.3,0.5],[0,0.3,0.5]):
    d=np.linspace(0,R,4001)
    F=m.model_func(-d[::-1].copy(),ES,EL,R,nuS,nuL,t,0,0)[::-1]
    n+=1
    if not np.all(np.isfinite(F)): bad+=1; continue
    dec=np.min(np.diff(F))/np.max(F)
    if dec<worst: worst=dec; wc=(ES,EL,t,nuS,nuL)
print(n,bad,worst,wc)
