import warnings, time, itertools, sys, hashlib, copy, collections, os
os.environ["OMP_NUM_THREADS"]="1"; os.environ["OPENBLAS_NUM_THREADS"]="1"
warnings.simplefilter("ignore")
import numpy as np, lmfit
from synth import make_curve
from nanite import model as nmodel
from nanite.fit import obj2bytes, FP_DEFAULT
from multiprocessing import Pool
md=nmodel.models_available["hertz_para"]; p0=md.get_parameter_defaults()
truth={k:p0[k].value for k in p0}; truth["E"]=3000; truth["contact_point"]=2e-7; truth["baseline"]=1e-10
def fresh():
    return make_curve("hertz_para",truth,n_app=120,n_ret=120,noise=2e-11,seed=1,tilt=2e-5,innate_tip=False)
P0=["compute_tip_position"]; P1=["compute_tip_position","correct_force_offset","correct_tip_offset"]
OPS=[("P",P0,{}),("P",P1,{}),("P",P1,{"correct_tip_offset":{"method":"frechet_direct_path"}}),
     ("P",["correct_tip_offset"],{}),("P",["nope"],{}),
     ("F",{}),("F",{"weight_cp":0}),("F",{"weight_cp":1e-6}),("F",{"range_x":[-5e-7,1e-6]}),("F",{"range_x":[-8e-7,1e-6]}),("F",{"range_x":[0,0]}),
     ("F",{"range_type":"relative cp"}),("F",{"range_type":"absolute"}),("F",{"gcf_k":0.5}),("F",{"gcf_k":1.0}),
     ("F",{"model_key":"hertz_cone"}),("F",{"model_key":"hertz_para"}),("F",{"segment":1}),("F",{"segment":"approach"}),
     ("F",{"optimal_fit_edelta":True,"optimal_fit_num_samples":5}),("F",{"optimal_fit_edelta":False}),
     ("F",{"range_type":"bogus"}),("F",{"preprocessing":P1}),
     ("E","weight_cp",0),("E","weight_cp",1e-6),("E","gcf_k",0.5),("E","range_x",[-5e-7,1e-6]),
     ("M",),
    ]
def apply(idnt,op):
    try:
        if op[0]=="P": idnt.apply_preprocessing(copy.deepcopy(op[1]),copy.deepcopy(op[2]))
        elif op[0]=="F": idnt.fit_model(**copy.deepcopy(op[1]))
        elif op[0]=="E": idnt.fit_properties[op[1]]=copy.deepcopy(op[2])
        elif op[0]=="M": idnt.compute_emodulus_mindelta()
        return "ok"
    except BaseException as e:
        return type(e).__name__
def canon(idnt):
    h=hashlib.sha1()
    fp=idnt.fit_properties
    for k in sorted(fp):
        v=fp[k]; h.update(k.encode())
        if isinstance(v,lmfit.Parameters):
            for n in v: h.update(repr(v[n].__getstate__()).encode())
        elif isinstance(v,np.ndarray): h.update(v.tobytes())
        else: h.update(repr(v).encode())
    for c in idnt.columns:
        h.update(c.encode()); h.update(np.asarray(idnt[c]).tobytes())
    h.update(repr(idnt.preprocessing).encode()); h.update(repr(idnt.preprocessing_options).encode()); h.update(repr(idnt._rating).encode())
    return h.hexdigest()
def run(hist):
    idnt=fresh(); outs=[]
    for i in hist: outs.append(apply(idnt,OPS[i]))
    return canon(idnt), outs[-1] if outs else None
def expand(hist):
    return [(hist+[i],)+run(hist+[i]) for i in range(len(OPS))]
if __name__=="__main__":
    t0=time.time()
    seen={run([])[0]:[]}; frontier=[[]]; trans=0
    with Pool(16) as pool:
        for depth in range(1,5):
            nxt=[]
            for res in pool.imap_unordered(expand,frontier,chunksize=4):
                for h,c,o in res:
                    trans+=1
                    if c not in seen: seen[c]=h; nxt.append(h)
            print("depth",depth,"states",len(seen),"new",len(nxt),"trans",trans,"t",round(time.time()-t0,1)); sys.stdout.flush()
            frontier=nxt
            if not nxt: break
