import warnings
import numpy as np
import nanite
from nanite import model as nmodel
from nanite.indent import Indentation

def make_curve(model_key, params, n_app=300, n_ret=300, x_start=2e-6, depth=1e-6,
               noise=0.0, seed=0, k_spring=0.05, tilt=0.0, innate_tip=True, fscale=1.0, ret_perturb=False, path="/tmp/scratch/synth.h5", enum=0):
    """approach from cp+x_start down to cp-depth, retract back."""
    md = nmodel.models_available[model_key]
    cp = params["contact_point"]
    xa = np.linspace(cp + x_start, cp - depth, n_app)
    xr = np.linspace(cp - depth, cp + x_start, n_ret+1)[1:]
    x = np.concatenate([xa, xr])
    f = md.module.model_func(x, **params)
    f = f + tilt * (x - x[0])
    if noise:
        rng = np.random.RandomState(seed)
        f = f + rng.normal(0, noise, size=f.size)
    if ret_perturb:
        rs = np.random.RandomState(99); f = f.copy(); f[n_app:] = rs.normal(0, 1e-9, n_ret)
    f = f * fscale
    seg = np.concatenate([np.zeros(n_app, np.uint8), np.ones(n_ret, np.uint8)])
    t = np.arange(x.size) * 1e-3
    data = {"force": f, "segment": seg, "time": t,
            "height (measured)": x - f / k_spring}
    if innate_tip:
        data["tip position"] = x
    meta = {"path": path, "enum": enum, "spring constant": k_spring,
            "imaging mode": "force-distance", "point count": x.size}
    return Indentation(data=data, metadata=meta)
