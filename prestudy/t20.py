import warnings, copy
warnings.simplefilter("ignore")
import numpy as np, lmfit
from synth import make_curve
from nanite import model as nmodel
md=nmodel.models_available["hertz_para"]; p0=md.get_parameter_defaults()
truth={k:p0[k].value for k in p0}; truth["E"]=3000; truth["contact_point"]=2e-7; truth["baseline"]=1e-10
def fresh(): return make_curve("hertz_para",truth,n_app=120,n_ret=120,noise=2e-11,seed=1,tilt=0,innate_tip=False)
calls=[0]; orig=lmfit.minimize
def wrap(*a,**k): calls[0]+=1; return orig(*a,**k)
lmfit.minimize=wrap
def E(i): return i.fit_properties.get("params_fitted",{}).get("E",None) and i.fit_properties["params_fitted"]["E"].value
P1=["compute_tip_position","correct_force_offset","correct_tip_offset"]
# 1. range_x list mutated in place
a=fresh(); tw=fresh()
RX=[-5e-7,1e-6]
for o in (a,tw): o.apply_preprocessing(list(P1))
a.fit_model(range_x=RX); tw.fit_model(range_x=copy.deepcopy(RX)); e1=(E(a),E(tw))
RX[0]=-9e-7; c0=calls[0]
a.fit_model(range_x=RX); n_a=calls[0]-c0; c0=calls[0]; tw.fit_model(range_x=copy.deepcopy(RX)); n_t=calls[0]-c0
print("range_x in-place:", e1, (E(a),E(tw)), "minimize calls aliased/twin", n_a,n_t, "stored", a.fit_properties["range_x"], tw.fit_properties["range_x"])
# 2. preprocessing list
a=fresh(); tw=fresh(); L=["compute_tip_position"]
a.apply_preprocessing(L); tw.apply_preprocessing(list(L))
L.append("correct_force_offset"); a.apply_preprocessing(L); tw.apply_preprocessing(list(L))
print("list in-place: force equal", np.array_equal(a["force"],tw["force"]), a.preprocessing, a.fit_properties["preprocessing"])
# 3. options dict
a=fresh(); tw=fresh(); O={"correct_tip_offset":{"method":"deviation_from_baseline"}}
a.apply_preprocessing(list(P1),O); tw.apply_preprocessing(list(P1),copy.deepcopy(O))
O["correct_tip_offset"]["method"]="frechet_direct_path"; a.apply_preprocessing(list(P1),O); tw.apply_preprocessing(list(P1),copy.deepcopy(O))
print("options in-place: tip equal", np.array_equal(a["tip position"],tw["tip position"]))
# 4. returned params edited
a=fresh(); tw=fresh()
for o in (a,tw): o.apply_preprocessing(list(P1)); o.fit_model(model_key="hertz_para")
pa=a.get_initial_fit_parameters(); pt=copy.deepcopy(tw.get_initial_fit_parameters())
pa["R"].value=5e-6; pt["R"].value=5e-6
c0=calls[0]; a.fit_model(params_initial=pa); n_a=calls[0]-c0; c0=calls[0]; tw.fit_model(params_initial=pt); n_t=calls[0]-c0
print("returned params edit: E", E(a),E(tw),"calls",n_a,n_t, "hash present before?", )
# 5. passed params edited again
a=fresh(); tw=fresh(); PI=md.get_parameter_defaults()
for o in (a,tw): o.apply_preprocessing(list(P1))
a.fit_model(params_initial=PI); tw.fit_model(params_initial=copy.deepcopy(PI))
PI["R"].value=5e-6
c0=calls[0]; a.fit_model(params_initial=PI); n_a=calls[0]-c0; c0=calls[0]; tw.fit_model(params_initial=copy.deepcopy(PI)); n_t=calls[0]-c0
print("passed params edit: E", E(a),E(tw),"calls",n_a,n_t)
# 6. method_kws
a=fresh(); tw=fresh(); MK={"max_nfev":4}
for o in (a,tw): o.apply_preprocessing(list(P1))
a.fit_model(method="nelder",method_kws=MK); tw.fit_model(method="nelder",method_kws=copy.deepcopy(MK))
MK["max_nfev"]=400
a.fit_model(method="nelder",method_kws=MK); tw.fit_model(method="nelder",method_kws=copy.deepcopy(MK))
print("method_kws edit: E", E(a),E(tw))
