import warnings, time, itertools, sys, os
os.environ["OMP_NUM_THREADS"]="1"
warnings.simplefilter("ignore")
import numpy as np
from synth import make_curve
from nanite import model as nmodel
from multiprocessing import Pool
MODELS=["hertz_para","hertz_cone","hertz_pyr3s","sneddon_spher_approx","power_layer_clifford_2009"]
def run(arg):
    mk,method,box=arg
    fEs,dcps,dbls=box
    md=nmodel.models_available[mk]; p0=md.get_parameter_defaults()
    worst=0; wc=None; nexc=0; n=0
    for E,cp,bl,seg,n_app,wcp,fE,dcp,dbl in itertools.product([30,3e3,3e5],[0,-3e-7,5e-7],[0,2e-10,-1e-10],[0,1],[60,300],[0,5e-7],fEs,dcps,dbls):
        truth={k:p0[k].value for k in p0}; ek="E" if "E" in truth else "E_S"
        truth[ek]=E; truth["contact_point"]=cp; truth["baseline"]=bl
        idnt=make_curve(mk,truth,n_app=n_app,n_ret=n_app)
        fmax=np.max(idnt["force"])-bl
        pi=md.get_parameter_defaults(); pi[ek].value=E*fE; pi["contact_point"].value=cp+dcp*1e-6; pi["baseline"].value=bl+dbl*fmax
        if mk.startswith("power"): pi["E_L"].vary=False; pi["t"].vary=False
        try: idnt.fit_model(model_key=mk,params_initial=pi,segment=seg,weight_cp=wcp,method=method,preprocessing=[])
        except BaseException as e: nexc+=1; continue
        pf=idnt.fit_properties["params_fitted"]
        w=max(abs(pf[ek].value-E)/E, abs(pf["contact_point"].value-cp)/1e-6, abs(pf["baseline"].value-bl)/fmax); n+=1
        if w>worst: worst=w; wc=(E,cp,bl,seg,n_app,wcp,fE,dcp,dbl)
    return mk,method,box,n,nexc,worst,wc
if __name__=="__main__":
    wide=([0.3,3],[-0.1,0.1],[-0.1,0.1]); mid=([0.7,1.4],[-0.05,0.05],[-0.05,0.05]); narrow=([0.9,1.1],[-0.02,0.02],[-0.02,0.02])
    jobs=[(mk,m,b) for mk in MODELS for m,b in [("least_squares",wide),("powell",mid),("powell",narrow),("nelder",mid),("nelder",narrow)]]
    with Pool(16) as p:
        for r in p.imap_unordered(run,jobs):
            print(r[0][:12],r[1],"box",r[2][0],"n",r[3],"exc",r[4],"worst",f"{r[5]:.2e}",r[6]); sys.stdout.flush()
