import numpy as np, warnings
warnings.simplefilter("ignore")
from nanite.model import model_sneddon_spherical_approximation as m
R=10e-6; E=3000; nu=0.5
# exact Sneddon: parametrised by contact radius a in (0,R)
a=np.linspace(1e-9*R, 0.99999*R, 200001)
delta=a/2*np.log((R+a)/(R-a))
F=E/(1-nu**2)*((R**2+a**2)/2*np.log((R+a)/(R-a))-a*R)
for frac in [0.1,0.5,1.0,1.5,2.0]:
    sel=delta<=frac*R
    d=delta[sel]; Fx=F[sel]
    Fa=m.model_func(-d[::-1].copy() , E,R,nu,0,0)[::-1]  # delta arg is tip position: root = cp - delta
    err=np.max(np.abs(Fa-Fx))/np.max(Fx)
    print(frac, err, "a/R max", a[sel][-1]/R)
try:
    import nanite_model_sneddon_spher as ns
    print(ns.__file__)
except Exception as e: print(e)
from nanite import model
print(sorted(model.models_available))
