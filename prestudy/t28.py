import os, time, warnings, sys
os.environ["OMP_NUM_THREADS"]="1"; os.environ["OPENBLAS_NUM_THREADS"]="1"
warnings.simplefilter("ignore")
import multiprocessing as mp
from nanite import IndentationGroup
jpk="/repo/tests/data/fmt-jpk-fd_spot3-0192.jpk-force"
def work(i):
    idnt=IndentationGroup(jpk)[0]
    idnt.apply_preprocessing(["compute_tip_position","correct_force_offset","correct_tip_offset"]); idnt.fit_model(model_key="hertz_para", weight_cp=[0,1e-6,2e-6][i%3])
    return float(idnt.rate_quality(regressor=["Extra Trees","Random Forest","SVR (RBF kernel)"][i%3]))
if __name__=="__main__":
    print("parent first:", work(0), work(1))   # parent uses sklearn before fork
    for ctx in ["forkserver","spawn"]:
        t0=time.time()
        with mp.get_context(ctx).Pool(16) as p:
            r=p.map(work, range(32))
        print(ctx, "ok", len(set(r)), round(time.time()-t0,1),"s")
