import os, tempfile, pathlib, warnings, sys, types, copy
td=tempfile.mkdtemp(dir="/tmp/scratch"); os.environ["XDG_CONFIG_HOME"]=td
warnings.simplefilter("ignore")
from nanite.cli import profile
print("profile path:", profile.PROFILE_PATH, str(profile.PROFILE_PATH).startswith(td))
# C18 registry probes
import nanite
from nanite import model
from nanite.model import core, logic
base=model.models_available["hertz_para"].module
def mk(key, **over):
    m=types.SimpleNamespace()
    for a in dir(base):
        if not a.startswith("__"): setattr(m,a,getattr(base,a))
    m.model_key=key
    for k,v in over.items():
        if v is None: delattr(m,k)
        else: setattr(m,k,v)
    return m
before=dict(model.models_available)
res=[]
for attr in ["get_parameter_defaults","model_doc","model_key","model_name","parameter_keys","parameter_names","parameter_units","valid_axes_x","valid_axes_y","model_func"]:
    try:
        m=mk("mut_"+attr, **{attr:None}); model.register_model(m); r="ACCEPTED"
    except core.ModelError as e: r="ModelError:"+type(e).__name__
    except BaseException as e: r="OTHER:"+type(e).__name__+":"+str(e)[:50]
    res.append((attr,r, dict(model.models_available)==before))
    for k in list(model.models_available):
        if k not in before: model.models_available.pop(k)
for name,over in [("names short",dict(parameter_names=base.parameter_names[:-1])),("units long",dict(parameter_units=base.parameter_units+["x"])),("dup names",dict(parameter_names=["a","a","b","c","d"])),
                  ("keys swapped",dict(parameter_keys=["R","E","nu","contact_point","baseline"])),("keys short",dict(parameter_keys=base.parameter_keys[:-1],parameter_names=base.parameter_names[:-1],parameter_units=base.parameter_units[:-1])),
                  ("keys long",dict(parameter_keys=base.parameter_keys+["zz"],parameter_names=base.parameter_names+["zz"],parameter_units=base.parameter_units+[""]))]:
    try:
        m=mk("mut2", **over); model.register_model(m); r="ACCEPTED"
    except core.ModelError as e: r="ModelError:"+type(e).__name__
    except BaseException as e: r="OTHER:"+type(e).__name__+":"+str(e)[:50]
    res.append((name,r, dict(model.models_available)==before))
    for k in list(model.models_available):
        if k not in before: model.models_available.pop(k)
for r in res: print(r)
# deregister nonexistent
try: model.deregister_model(mk("nonexistent")); print("dereg nonexist ok")
except BaseException as e: print("dereg nonexist:",type(e).__name__)
# re-register same key different content
m1=mk("dup"); m2=mk("dup", model_name="other"); model.register_model(m1); model.register_model(m2); print("dup ->", model.models_available["dup"].model_name); model.models_available.pop("dup")
