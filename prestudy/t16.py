import warnings, itertools, pathlib, tempfile, math, time
warnings.simplefilter("ignore")
import numpy as np
from nanite.rate.rater import IndentationRater as IR
names_all=IR.get_feature_names(which_type="continuous")
td=pathlib.Path(tempfile.mkdtemp(dir="/dev/shm"))
def ref(M, y, impute=True, remove=True, repl=True):
    M=[list(r) for r in M]; y=list(y); n=len(M); m=len(M[0]) if n else 0
    if impute:
        for j in range(m):
            refs=[M[i][j] for i in range(n) if y[i]==0 and not math.isnan(M[i][j])]
            tgt=[i for i in range(n) if y[i]==0 and math.isnan(M[i][j])]
            if refs and tgt:
                mean=float(np.mean(refs))
                for i in tgt: M[i][j]=mean
    if remove:
        keep=[i for i in range(n) if not any(math.isnan(v) for v in M[i])]
        M=[M[i] for i in keep]; y=[y[i] for i in keep]
    if repl:
        for j in range(m):
            col=[r[j] for r in M]
            if any(math.isinf(v) for v in col):
                fin=[abs(v) for v in col if not math.isinf(v) and not math.isnan(v)]
                if not fin: return "UNDEF", None
                ext=max(fin)
                for r in M:
                    if r[j]==math.inf: r[j]=2*ext
                    elif r[j]==-math.inf: r[j]=-2*ext
    return M,y
cells=["f",math.nan,math.inf,-math.inf]
n,m=3,2
req=[names_all[3],names_all[1]]  # unsorted request
srt=sorted(req)
bad=[]; cnt=0; undef=0; t0=time.time()
for pat in itertools.product(range(4),repeat=n*m):
    for y in itertools.product([0.0,3.0],repeat=n):
        M=[[ (1.0+i+10*j) if cells[pat[i*m+j]]=="f" else cells[pat[i*m+j]] for j in range(m)] for i in range(n)]
        # write: column j corresponds to sorted name j
        for j,nm in enumerate(srt):
            np.savetxt(td/f"train_{nm}.txt", np.array([M[i][j] for i in range(n)]))
        np.savetxt(td/"train_response.txt", np.array(y))
        for flags in [(True,True,True)]:
            exp=ref(M,y,*flags); cnt+=1
            try:
                X,Y=IR.load_training_set(td,names=req,impute_zero_rated_nan=flags[0],remove_nan=flags[1],replace_inf=flags[2])
                got=(X.tolist(), np.atleast_1d(Y).tolist())
            except BaseException as e:
                got=("EXC",type(e).__name__)
            if exp[0]=="UNDEF":
                undef+=1; continue
            if got[0]=="EXC" or not (np.array_equal(np.array(exp[0]).reshape(-1,m),np.array(got[0]).reshape(-1,m),equal_nan=True) and exp[1]==got[1]):
                bad.append((M,y,exp,got))
print(cnt,undef,len(bad),time.time()-t0)
for b in bad[:6]: print(b)
import shutil; shutil.rmtree(td)
