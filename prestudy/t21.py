import warnings, glob, time
warnings.simplefilter("ignore")
import numpy as np
from nanite import IndentationGroup, load_group, QMap
for f in sorted(glob.glob("/repo/tests/data/fmt-jpk-fd_map*"))+["/repo/tests/data/fmt-jpk-fd_spot3-0192.jpk-force","/repo/tests/data/fmt-afm-workshop-fd_single_2021-10-22_14.16.csv"]:
    cb=[]; t0=time.time()
    try:
        g=IndentationGroup(f, callback=cb.append)
    except BaseException as e:
        print(f.split("/")[-1], "RAISED", type(e).__name__, str(e)[:80]); continue
    mono=all(b>=a for a,b in zip(cb,cb[1:])) and all(0<=c<=1 for c in cb)
    en=[i.enum for i in g]
    print(f.split("/")[-1][:40], "n",len(g),"enums uniq",len(set(en))==len(en),"cb",len(cb),"mono",mono,cb[-1] if cb else None, round(time.time()-t0,2),
          [ (i.metadata.get("grid index x"),i.metadata.get("grid index y")) for i in g][:6], "shape", (g[0].metadata.get("grid shape x"),g[0].metadata.get("grid shape y")))
cb=[]; g=load_group("/repo/tests/data", callback=cb.append)
print("folder n",len(g),"mono",all(b>=a for a,b in zip(cb,cb[1:])), len(cb), min(cb), max(cb))
