import warnings, time, itertools, sys, hashlib, copy, collections, os
os.environ["OMP_NUM_THREADS"]="1"; os.environ["OPENBLAS_NUM_THREADS"]="1"
warnings.simplefilter("ignore")
import numpy as np, lmfit
from synth import make_curve
from nanite import model as nmodel
from nanite.fit import FP_DEFAULT, FP_RESULTS
import multiprocessing as mp
md=nmodel.models_available["hertz_para"]; p0=md.get_parameter_defaults()
truth={k:p0[k].value for k in p0}; truth["E"]=3000; truth["contact_point"]=2e-7; truth["baseline"]=1e-10
def fresh():
    return make_curve("hertz_para",truth,n_app=120,n_ret=120,noise=2e-11,seed=1,tilt=2e-5,innate_tip=False)
P0=["compute_tip_position"]; P1=["compute_tip_position","correct_force_offset","correct_tip_offset"]
OPS=[("P",P0,{}),("P",P1,{}),("P",P1,{"correct_tip_offset":{"method":"fit_constant_line"}}),
     ("P",["correct_tip_offset"],{}),("P",["nope"],{}),
     ("F",{}),("F",{"weight_cp":0}),("F",{"weight_cp":1e-6}),("F",{"range_x":[-5e-7,1e-6]}),("F",{"range_x":[-8e-7,1e-6]}),("F",{"range_x":[0,0]}),
     ("F",{"range_type":"relative cp"}),("F",{"range_type":"absolute"}),("F",{"gcf_k":0.5}),("F",{"gcf_k":1.0}),
     ("F",{"model_key":"hertz_cone"}),("F",{"model_key":"hertz_para"}),("F",{"segment":1}),("F",{"segment":"approach"}),
     ("F",{"optimal_fit_edelta":True,"optimal_fit_num_samples":7}),("F",{"optimal_fit_edelta":False}),
     ("F",{"range_type":"bogus"}),("F",{"preprocessing":P1}),
     ("E","weight_cp",0),("E","weight_cp",1e-6),("E","gcf_k",0.5),("E","range_x",[-5e-7,1e-6]),
     ("M",),
    ]
def apply(idnt,op):
    try:
        if op[0]=="P": idnt.apply_preprocessing(copy.deepcopy(op[1]),copy.deepcopy(op[2]))
        elif op[0]=="F": idnt.fit_model(**copy.deepcopy(op[1]))
        elif op[0]=="E": idnt.fit_properties[op[1]]=copy.deepcopy(op[2])
        elif op[0]=="M": idnt.compute_emodulus_mindelta()
        return "ok"
    except BaseException as e:
        return type(e).__name__
def norm(x):
    import numbers
    if isinstance(x,(bool,np.bool_)): return ("b",bool(x))
    if isinstance(x,numbers.Real): return ("f",float(x).hex())
    if isinstance(x,(list,tuple)): return tuple(norm(i) for i in x)
    if isinstance(x,dict): return tuple(sorted((k,norm(v)) for k,v in x.items()))
    return x
def val_digest(v):
    if isinstance(v,lmfit.Parameters): return tuple((n,repr(norm(v[n].__getstate__()))) for n in sorted(v))
    if isinstance(v,(list,tuple,dict,int,float,np.floating,np.integer,bool,np.bool_)): return repr(norm(v))
    if isinstance(v,np.ndarray): return hashlib.sha1(v.tobytes()).hexdigest()
    return repr(v)
def canon(idnt):
    h=hashlib.sha1(); fp=idnt.fit_properties
    for k in sorted(fp): h.update(k.encode()); h.update(repr(val_digest(fp[k])).encode())
    for c in idnt.columns: h.update(c.encode()); h.update(np.asarray(idnt[c]).tobytes())
    h.update(repr(idnt.preprocessing).encode()); h.update(repr(idnt.preprocessing_options).encode()); h.update(repr(idnt._rating).encode())
    return h.hexdigest()
def oracle(idnt):
    """return list of clause names violated"""
    fp=idnt.fit_properties; out=[]
    o=fresh()
    try:
        if "preprocessing" in fp: o.apply_preprocessing(copy.deepcopy(fp["preprocessing"]),copy.deepcopy(fp.get("preprocessing_options",{})))
    except BaseException as e:
        return ["oracle-preproc-raised:"+type(e).__name__]
    # compare preproc columns
    for c in ["force","tip position","segment"]:
        if (c in idnt)!=(c in o) or (c in idnt and not np.array_equal(np.asarray(idnt[c]),np.asarray(o[c]))): out.append("history-dependence:"+c)
    if "hash" in fp:
        kw={k:copy.deepcopy(fp[k]) for k in FP_DEFAULT if k in fp and k not in ("preprocessing","preprocessing_options")}
        try: o.fit_model(**kw)
        except BaseException as e: return out+["oracle-fit-raised:"+type(e).__name__]
        for k in FP_RESULTS:
            if (k in fp)!=(k in o.fit_properties): 
                if k.startswith("optimal_fit") and k in fp: 
                    pass
                else: out.append("stale-result:presence:"+k); continue
            if k in fp and k in o.fit_properties and val_digest(fp[k])!=val_digest(o.fit_properties[k]): out.append("stale-result:"+k)
        for c in ["fit","fit residuals","fit range"]:
            if c not in idnt or not np.array_equal(np.asarray(idnt[c]),np.asarray(o[c]),equal_nan=True): out.append("stale-result:col:"+c)
        for k in FP_DEFAULT:
            if k in fp and val_digest(fp[k])!=val_digest(o.fit_properties[k]): out.append("settings-drift:"+k)
    else:
        for k in FP_RESULTS:
            if k in fp and not k.startswith("optimal_fit"): out.append("result-without-hash:"+k)
        for c in ["fit","fit residuals","fit range"]:
            if c in idnt: out.append("columns-present-without-hash"); break
    return out
def expand(hist):
    res=[]
    for i in range(len(OPS)):
        idnt=fresh(); 
        for j in hist+[i]: obs=apply(idnt,OPS[j])
        res.append((hist+[i],canon(idnt),obs,oracle(idnt)))
    return res
if __name__=="__main__":
    import nanite; print(nanite.__file__)
    t0=time.time(); seen={}; frontier=[[]]; trans=0; clauses=collections.Counter(); examples={}
    with mp.get_context("forkserver").Pool(16) as pool:
        for depth in range(1,int(sys.argv[1])+1):
            nxt=[]
            for res in pool.imap_unordered(expand,frontier,chunksize=2):
                for h,c,o,viol in res:
                    trans+=1
                    if c not in seen:
                        seen[c]=h; nxt.append(h)
                        for v in viol:
                            key=v.split(":")[0]+":"+(v.split(":")[1] if ":" in v else "")
                            clauses[key]+=1; examples.setdefault(key,(h,v))
            print("depth",depth,"states",len(seen),"trans",trans,"t",round(time.time()-t0,1)); sys.stdout.flush()
            frontier=nxt
    print(clauses)
    for k,(h,v) in examples.items(): print(k, [OPS[i] for i in h], v)
