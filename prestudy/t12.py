import warnings, copy
warnings.simplefilter("ignore")
import numpy as np
from synth import make_curve
from nanite import model as nmodel
from nanite.fit import IndentationFitter, FP_DEFAULT
md=nmodel.models_available["hertz_para"]; p0=md.get_parameter_defaults()
truth={k:p0[k].value for k in p0}; truth["E"]=3000
def fresh():
    i=make_curve("hertz_para",truth,n_app=100,n_ret=100,noise=1e-11,seed=1,innate_tip=False)
    i.apply_preprocessing(["compute_tip_position","correct_force_offset","correct_tip_offset"])
    return i
def H(**kw):
    i=fresh()
    for k in sorted(kw): i.fit_properties[k]=kw[k]
    return IndentationFitter(i).hash
base=H()
dom={"model_key":["hertz_para","hertz_cone"],"optimal_fit_edelta":[False,True],"optimal_fit_num_samples":[100,7],
 "range_type":["absolute","relative cp"],"range_x":[[0,0],[-1e-6,1e-6],[-2e-6,1e-6],[-1e-6,2e-6]],"segment":[0,1],"weight_cp":[1e-6,0,2e-6],"gcf_k":[1.0,0.5],
 "x_axis":["tip position","height (measured)"],"y_axis":["force"],"method":["leastsq","nelder"],"method_kws":[{}, {"max_nfev":5},{"max_nfev":6}]}
for k,vs in dom.items():
    hs=[H(**{k:v}) for v in vs]
    print(k, len(set(hs)), len(vs), [h==base for h in hs])
# edelta on: range_x[0] dont care, num samples matter
print("edelta range0:", H(optimal_fit_edelta=True,range_x=[-1e-6,1e-6])==H(optimal_fit_edelta=True,range_x=[-2e-6,1e-6]), "range1:",H(optimal_fit_edelta=True,range_x=[-1e-6,1e-6])==H(optimal_fit_edelta=True,range_x=[-1e-6,2e-6]))
print("edelta ns:", H(optimal_fit_edelta=True,optimal_fit_num_samples=5)==H(optimal_fit_edelta=True,optimal_fit_num_samples=6))
# representation
print("tuple/list", H(range_x=(-1e-6,1e-6))==H(range_x=[-1e-6,1e-6]), "int/float", H(weight_cp=0)==H(weight_cp=0.0)==H(weight_cp=False), "segname", H(segment="retract")==H(segment=1))
print("npfloat", H(weight_cp=np.float64(2e-6))==H(weight_cp=2e-6))
try: print("npint", H(segment=np.int64(1))==H(segment=1))
except BaseException as e: print("npint raised", type(e).__name__, e)
print("dict order", H(method_kws={"a":1,"b":2})==H(method_kws={"b":2,"a":1}))
print("preproc options order", )
# params attrs
def HP(f):
    i=fresh(); p=md.get_parameter_defaults(); f(p); i.fit_properties["params_initial"]=p; return IndentationFitter(i).hash
b=HP(lambda p:None)
for name,f in [("value",lambda p:p["E"].set(value=10)),("min",lambda p:p["E"].set(min=1)),("max",lambda p:p["E"].set(max=1e9)),("vary",lambda p:p["E"].set(vary=False)),("expr",lambda p:p["R"].set(expr="1e-5+0*E")),("brute",lambda p:p["E"].set(brute_step=3))]:
    print(name, HP(f)!=b)
# None params_initial vs guessed
i=fresh(); h1=IndentationFitter(i).hash; i.fit_model(); print("hash none-params vs stored after fit:", h1==i.fit_properties["hash"], IndentationFitter(i).hash==i.fit_properties["hash"])
i=fresh(); i.fit_model(gcf_k=0.5); print("gcf: rehash==stored", IndentationFitter(i).hash==i.fit_properties["hash"])
