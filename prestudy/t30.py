import warnings, itertools
warnings.simplefilter("ignore")
import numpy as np, lmfit, types
from nanite import model as nmodel
from nanite.model import residuals
viol=[]
def P(md, **over):
    p=md.get_parameter_defaults()
    for k,v in over.items(): p[k].set(value=v)
    return p
for key,md in sorted(nmodel.models_available.items()):
    if key=="sneddon_spher": continue
    p0=md.get_parameter_defaults()
    ek=[k for k in p0 if k.startswith("E")]
    R=p0["R"].value if "R" in p0 else 1e-5
    for cp,bl,Es in itertools.product([0,3e-7,-2e-6],[0,1e-10,-3e-10],[30,3e3,3e5]):
        over={"contact_point":cp,"baseline":bl}; over.update({k:Es*(1 if k!="E_L" else 0.01) for k in ek})
        if "E_L" in p0: over["E_L"]=min(1000,Es*0.01)
        p=P(md,**over)
        xd=np.linspace(cp+1e-6, cp-0.9*R if key.startswith("sneddon") or "R" in p0 else cp-1e-6, 301)  # descending (approach)
        xa=xd[::-1].copy()
        vb=p.valuesdict().copy(); xdb=xd.tobytes()
        fd=md.model(p,xd); fa=md.model(p,xa)
        if fd.shape!=xd.shape or not np.array_equal(fa,fd[::-1]): viol.append((key,"orientation",cp,bl,Es))
        if xd.tobytes()!=xdb or p.valuesdict()!=vb: viol.append((key,"input-mutated"))
        # translation
        s=2.0**-21
        p2=P(md,**dict(over,contact_point=cp+s)); f2=md.model(p2,xd+s)
        scale=np.max(np.abs(fd-bl))+1e-300
        if np.max(np.abs(f2-fd))/scale>1e-9: viol.append((key,"translation",np.max(np.abs(f2-fd))/scale))
        # baseline additivity
        p3=P(md,**dict(over,baseline=bl+2e-10)); f3=md.model(p3,xd)
        if np.max(np.abs((f3-fd)-2e-10))>1e-22+1e-12*scale: viol.append((key,"baseline",np.max(np.abs((f3-fd)-2e-10))))
        # modulus linear (c=2 exact)
        o4=dict(over); 
        for k in ek: o4[k]=over[k]*2
        if "E_L" in p0 and o4["E_L"]>1000: pass
        else:
            f4=md.model(P(md,**o4),xd)
            if not np.allclose((f4-bl),2*(fd-bl),rtol=1e-12,atol=1e-30): viol.append((key,"modulus-linear",np.max(np.abs((f4-bl)-2*(fd-bl)))/scale))
        # baseline exact out of contact, continuity, monotonic
        out=xd>=cp
        if not np.all(fd[out]==bl): viol.append((key,"baseline-exact"))
        if np.any(np.diff(fd)< -1e-12*scale): viol.append((key,"monotonic",np.min(np.diff(fd))/scale))
        eps=np.array([cp-1e-6*2.0**-j for j in range(1,40)]); fe=md.model(p,eps)
        if not np.all(np.diff(fe)<=1e-30) or abs(fe[-1]-bl)>1e-9*scale: viol.append((key,"continuity",fe[-1]-bl))
        # residual default
        rs=np.random.RandomState(1); y=fd+rs.normal(0,1e-11,fd.size)
        for w in [0,5e-7]:
            r=md.residual(p,xd,y,w)
            wt=np.minimum(1,np.abs(xd-cp)/w) if w else 1
            if not np.allclose(r,(y-fd)*wt,rtol=1e-13,atol=0): viol.append((key,"residual",w))
print(sorted(nmodel.models_available)); print(len(viol)); 
import collections; print(collections.Counter((v[0],v[1]) for v in viol)); print(viol[:6])
