import warnings, pathlib, tempfile, json, math
warnings.simplefilter("ignore")
from nanite.cli import profile
td=pathlib.Path(tempfile.mkdtemp(dir="/tmp/scratch"))
p=td/"p.cfg"
pf=profile.Profile(p)
vals={"model_key":["hertz_cone","sneddon_spher_approx"],"preprocessing":[["compute_tip_position"],[]],"preprocessing_options":[{"correct_tip_offset":{"method":"fit_constant_line"}},{}],
 "range_type":["relative cp","absolute"],"range_x":[[-2e-6,1e-6],(0,0),[0.0,1e-6]],"segment":[1,0],"weight_cp":[0,2e-6,5e-7],"rating regressor":["Decision Tree"],"rating training set":["/some/path",pathlib.Path("/x/y")]}
for k,vs in vals.items():
    for v in vs:
        pf[k]=v
        got=profile.Profile(p)[k]
        ok = (got==v) or (isinstance(v,tuple) and got==list(v)) or (isinstance(v,pathlib.Path) and got==str(v))
        print(k, repr(v), "->", repr(got), "OK" if ok else "DIFF", type(got).__name__)
try:
    print(pf["fit param E value"])
except BaseException as e: print("read fit param key:", type(e).__name__, e)
pf["fit param E value"]=77; pf["fit param E vary"]=False; pf["model_key"]="hertz_cone"
fp=profile.Profile(p).get_fit_params(); print({k:(fp[k].value,fp[k].vary) for k in fp})
try: pf["fit param E min"]=3
except BaseException as e: print("bad fit param key:", type(e).__name__)
# legacy rendering
d=json.loads(p.read_text())
print(d)
leg=td/"leg.cfg"
lines=[]
for k in ["model_key","preprocessing","range_type","range_x","rating regressor","rating training set","segment","weight_cp"]:
    v=d[k]
    if isinstance(v,list): v=",".join(str(x) for x in v)
    lines.append(f"{k} = {v}")
leg.write_text("\n".join(lines)+"\n")
print(leg.read_text())
pl=profile.Profile(leg)
for k in ["model_key","preprocessing","range_type","range_x","rating regressor","rating training set","segment","weight_cp"]:
    print(k, repr(pl[k]), repr(d[k]), pl[k]==d[k])
