import warnings, pathlib, tempfile, copy
warnings.simplefilter("ignore")
import numpy as np, h5py, lmfit
from nanite import IndentationGroup
from nanite.rate.io import save_hdf5, load_hdf5, hdf5_rated, RateManager
from nanite.rate.features import IndentationFeatures as IF
td=pathlib.Path(tempfile.mkdtemp(dir="/tmp/scratch"))
jpk="/repo/tests/data/fmt-jpk-fd_spot3-0192.jpk-force"
mp="/repo/tests/data/fmt-jpk-fd_map2x2_extracted.jpk-force-map"
h5=td/"r.h5"
def prep(idnt, **kw):
    idnt.apply_preprocessing(["compute_tip_position","correct_force_offset","correct_tip_offset"],{"correct_tip_offset":{"method":"fit_constant_line"}})
    idnt.fit_model(model_key="hertz_para", **kw); return idnt
a=prep(IndentationGroup(jpk)[0], range_x=[-2e-6,1e-6], method="leastsq", method_kws={"ftol":1e-9})
grp=IndentationGroup(mp); b=prep(grp[1], optimal_fit_edelta=True, optimal_fit_num_samples=8); c=prep(grp[3], segment="retract", gcf_k=0.5)
for i,(x,u) in enumerate([(a,"u1"),(b,"u2"),(c,"u3")]): save_hdf5(h5,x,i+1,u,"c%d"%i)
rs=load_hdf5(h5)
print([ (r["name"],r["rating"],r["enum"]) for r in rs])
orig={(x.path.name,x.enum):x for x in (a,b,c)}
for r in rs:
    d=r["data_set"]; key=[k for k in orig if d.path.name.endswith(k[0]) and d.enum==k[1]][0]; o=orig[key]
    cols={c:np.array_equal(np.asarray(o[c]),np.asarray(d[c]),equal_nan=True) for c in ["force","tip position","segment","fit","fit residuals","fit range"]}
    fpo,fpd=o.fit_properties,d.fit_properties
    diffs=[]
    for k in fpo:
        if k not in fpd: diffs.append((k,"missing")); continue
        vo,vd=fpo[k],fpd[k]
        if isinstance(vo,lmfit.Parameters):
            same=all(vo[p].__getstate__()==vd[p].__getstate__() for p in vo)
            if not same: diffs.append((k,[(vo[p].__getstate__(),vd[p].__getstate__()) for p in vo if vo[p].__getstate__()!=vd[p].__getstate__()][:1]))
        elif isinstance(vo,np.ndarray):
            if not np.array_equal(vo,vd): diffs.append((k,"array"))
        else:
            try: eq = (list(vo)==list(vd)) if isinstance(vo,(list,tuple)) else (vo==vd)
            except Exception: eq=False
            if not eq: diffs.append((k,vo,vd))
    feq=np.array_equal(IF.compute_features(o),IF.compute_features(d),equal_nan=True)
    print(key, cols, "fp diffs:",diffs, "extra keys:", set(fpd)-set(fpo), "features eq", feq, type(d.fit_properties).__name__)
print(RateManager(h5).get_rates())
