import warnings, itertools
warnings.simplefilter("ignore")
import numpy as np
from synth import make_curve
from nanite import model as nmodel
P={"hertz_para":1.5,"hertz_cone":2,"hertz_pyr3s":2}
worst={}
for mk,p in P.items():
    md=nmodel.models_available[mk]; p0=md.get_parameter_defaults()
    tr={k:p0[k].value for k in p0}; tr["E"]=3000; tr["contact_point"]=0.0; tr["baseline"]=0.0
    for noise,seg,(rt,rx,ed),cp0 in itertools.product([0,2e-11],[0,1],[("absolute",[0,0],False),("absolute",[-8e-7,6e-7],False),("relative cp",[-8e-7,6e-7],False),("absolute",[0,1e-6],True)],[0.0,1e-7,-5e-8]):
        res={}
        for k in [1,0.1,0.23,0.5,2]:
            c=make_curve(mk,tr,n_app=200,n_ret=200,noise=noise,seed=2,x_start=1e-6)
            pi=md.get_parameter_defaults(); pi["contact_point"].set(value=cp0); pi["E"].set(value=3000*k**(-p))
            try:
                c.fit_model(model_key=mk,params_initial=pi,preprocessing=[],segment=seg,range_type=rt,range_x=list(rx),optimal_fit_edelta=ed,optimal_fit_num_samples=7,weight_cp=0,gcf_k=k)
            except BaseException as e:
                res[k]=("EXC",type(e).__name__,str(e)[:40]); continue
            fp=c.fit_properties; pf=fp["params_fitted"]
            res[k]=(pf["E"].value,pf["contact_point"].value,pf["baseline"].value,fp["xmin"],fp["xmax"],c["fit"].copy(),c["fit range"].copy())
        if res[1][0]=="EXC": print("k=1 EXC",mk,noise,seg,rt,ed,cp0,res[1]); continue
        for k in res:
            if k==1: continue
            if res[k][0]=="EXC": print("EXC",mk,noise,seg,rt,ed,cp0,k,res[k]); continue
            a,b=res[1],res[k]
            fmax=np.nanmax(a[5])
            d=dict(E=abs(b[0]/(a[0]*k**(-p))-1), cp=abs(b[1]-a[1])/1e-6, bl=abs(b[2]-a[2])/fmax, x=max(abs(b[3]-a[3]),abs(b[4]-a[4]))/1e-6, fit=np.nanmax(np.abs(b[5]-a[5]))/fmax, rng=float(np.sum(a[6]!=b[6])))
            key=(noise>0,rt,ed)
            w=worst.setdefault(key,{})
            for q,v in d.items(): w[q]=max(w.get(q,0),v)
for k,v in worst.items(): print(k,{q:float("%.2g"%x) for q,x in v.items()})
