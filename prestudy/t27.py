import warnings, copy, hashlib
warnings.simplefilter("ignore")
import numpy as np
from synth import make_curve
from nanite import model as nmodel
md=nmodel.models_available["hertz_para"]; p0=md.get_parameter_defaults()
truth={k:p0[k].value for k in p0}; truth["E"]=3000; truth["contact_point"]=2e-7; truth["baseline"]=1e-10
def fresh(): return make_curve("hertz_para",truth,n_app=150,n_ret=150,noise=2e-11,seed=1,tilt=2e-5,innate_tip=False)
def dig(i): return {c:hashlib.sha1(np.asarray(i[c]).tobytes()).hexdigest()[:8] for c in i.columns if not c.startswith("fit")}
P1=["compute_tip_position","correct_force_offset","correct_tip_offset"]
bad_reqs={"unknown":(["compute_tip_position","nope"],{}),"missing prereq":(["correct_tip_offset"],{}),"bad opt value":(P1,{"correct_tip_offset":{"method":"bogus"}}),
          "bad opt key":(P1,{"correct_tip_offset":{"nokey":1}}),"bad strategy":(P1+["correct_force_slope"],{"correct_force_slope":{"strategy":"zzz"}})}
for via in ["apply","fit_model"]:
    for name,(p,o) in bad_reqs.items():
        i=fresh(); i.apply_preprocessing(list(P1)); i.fit_model(model_key="hertz_para"); ref=dig(i)
        out=[]
        for rep in range(2):
            try:
                if via=="apply": i.apply_preprocessing(copy.deepcopy(p),copy.deepcopy(o))
                else: i.fit_model(preprocessing=copy.deepcopy(p),preprocessing_options=copy.deepcopy(o))
                out.append("ACCEPTED")
            except BaseException as e: out.append(type(e).__name__)
        rep_as = (i.fit_properties.get("preprocessing")==p and i.fit_properties.get("preprocessing_options")==o)
        # then valid request again
        i.apply_preprocessing(list(P1),{}); same=dig(i)==ref
        print(via,name,out,"reported-as-applied:",rep_as,"idnt.preprocessing==bad:",i.preprocessing==p,"| after valid P1 cols same as before:",same)
