import warnings, time, pathlib, tempfile
warnings.simplefilter("ignore")
import numpy as np
from nanite import IndentationGroup
from nanite.rate import IndentationRater, get_rater, reg_names
from nanite.rate.rater import IndentationRater as IR
jpk="/repo/tests/data/fmt-jpk-fd_spot3-0192.jpk-force"
idnt=IndentationGroup(jpk)[0]
idnt.apply_preprocessing(["compute_tip_position","correct_force_offset","correct_tip_offset"]); idnt.fit_model(model_key="hertz_para")
# small training set dir
X,y=IR.load_training_set(which_type=["continuous"])
print(X.shape, np.unique(y))
td=pathlib.Path(tempfile.mkdtemp(dir="/tmp/scratch"))
names_c=IR.get_feature_names(which_type="continuous"); names_a=IR.get_feature_names()
# write a 90-row subset as a user dir (need all features incl. binary files? loader reads only requested names)
sel=np.arange(0,X.shape[0],12)
for j,nm in enumerate(names_c): np.savetxt(td/f"train_{nm}.txt", X[sel,j], fmt="%.2e")
np.savetxt(td/"train_response.txt", y[sel], fmt="%.2e")
feats=IR.compute_features(idnt)
for ts in ["zef18", str(td)]:
    for reg in reg_names:
        t0=time.time()
        try:
            r=idnt.rate_quality(regressor=reg, training_set=ts); dt=time.time()-t0
            rt=get_rater(reg, training_set=ts); r2=rt.rate(samples=np.atleast_2d(feats))[0]
            print(ts[-8:], reg, round(float(r),4), "standalone eq", r==r2, "t", round(dt,3))
        except BaseException as e:
            print(ts[-8:], reg, "RAISED", type(e).__name__, str(e)[:80])
for kw in [dict(names=["feat_con_idt_sum","feat_con_apr_sum"]), dict(lda=True), dict(lda=False,names=["feat_bin_size","feat_con_apr_sum","feat_con_idt_sum"])]:
    try: print(kw, idnt.rate_quality(regressor="Extra Trees", training_set=str(td), **kw))
    except BaseException as e: print(kw,"RAISED",type(e).__name__,str(e)[:100])
