import warnings, sys, pathlib, tempfile, copy, builtins
warnings.simplefilter("ignore")
import numpy as np, h5py
import nanite
from nanite import IndentationGroup, model
from nanite.rate.io import save_hdf5, load_hdf5, hdf5_rated
jpk="/repo/tests/data/fmt-jpk-fd_spot3-0192.jpk-force"
td=pathlib.Path(tempfile.mkdtemp(dir="/tmp/scratch"))
def fitted(wcp):
    idnt=IndentationGroup(jpk)[0]
    idnt.apply_preprocessing(["compute_tip_position","correct_force_offset","correct_tip_offset"])
    idnt.fit_model(model_key="hertz_para", weight_cp=wcp)
    return idnt
a=fitted(1e-6); b=fitted(0)
h5=td/"c.h5"
save_hdf5(h5,a,5,"u","c1")
try:
    save_hdf5(h5,b,7,"u2","c2")
    print("C16: different fit ACCEPTED; max|fit diff|=", np.nanmax(np.abs(a["fit"]-b["fit"])))
except ValueError as e:
    print("refused",e)
r=load_hdf5(h5)[0]
print(r["rating"], r["name"], r["fit properties"]["weight_cp"], r["fit properties"]["preprocessing"], type(r["fit properties"]["range_x"]))
# fault injection
import h5py._hl.group as G, h5py._hl.attrs as A
calls=[]
orig_cd=G.Group.create_dataset; orig_as=A.AttributeManager.__setitem__; orig_cg=G.Group.create_group
class Boom(OSError): pass
def count_run(failat=None):
    n=[0]
    def tick(name):
        n[0]+=1
        if failat is not None and n[0]==failat: raise Boom(name)
    def cd(self,name,*a,**k):
        tick("cd:"+name); return orig_cd(self,name,*a,**k)
    def cg(self,name,*a,**k):
        tick("cg:"+name); return orig_cg(self,name,*a,**k)
    def as_(self,name,val):
        tick("attr:"+name); return orig_as(self,name,val)
    G.Group.create_dataset=cd; G.Group.create_group=cg; A.AttributeManager.__setitem__=as_
    return n
def restore():
    G.Group.create_dataset=orig_cd; G.Group.create_group=orig_cg; A.AttributeManager.__setitem__=orig_as
# count writes when saving second curve from a different file
jpk2="/repo/tests/data/fmt-jpk-fd_single_tilted-baseline-shift-adyp_2023-06-26.jpk-force"
def fitted2():
    idnt=IndentationGroup(jpk2)[0]
    idnt.apply_preprocessing(["compute_tip_position","correct_force_offset","correct_tip_offset"])
    idnt.fit_model(model_key="hertz_para")
    return idnt
c=fitted2()
import shutil
h5b=td/"d.h5"; shutil.copy(h5,h5b)
n=count_run(); save_hdf5(h5b,c,3,"x","y"); restore(); total=n[0]; print("writes in a save:", total)
unread=[]
for k in range(1,total+1):
    shutil.copy(h5,h5b)
    n=count_run(k)
    try: save_hdf5(h5b,c,3,"x","y"); print("no failure?",k)
    except Boom as e: pass
    finally: restore()
    try:
        rs=load_hdf5(h5b); 
        ok=any(x["name"]=="u2" or x["name"]=="u" for x in rs)
    except BaseException as e:
        unread.append((k,type(e).__name__,str(e)[:60]))
print("unreadable after failure at write#:", unread)
