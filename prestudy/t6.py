import warnings, sys, pathlib, tempfile, copy, builtins, io, contextlib, json
warnings.simplefilter("ignore")
import numpy as np
import nanite
from nanite import poc, IndentationGroup
from nanite.cli import profile, rating
td=pathlib.Path(tempfile.mkdtemp(dir="/tmp/scratch"))
pp=td/"prof.cfg"
def run_setup(answers):
    def fake_input(prompt=""):
        idx=len(prompts); prompts.append(prompt)
        return answers.get(idx,"")
    prompts=[]
    old_in=builtins.input; builtins.input=fake_input
    old_argv=sys.argv; sys.argv=["nanite-setup-profile"]
    old_def=profile.Profile.__init__.__defaults__
    profile.Profile.__init__.__defaults__=(pp,True)
    buf=io.StringIO()
    try:
        with contextlib.redirect_stdout(buf):
            profile.setup_profile()
    finally:
        builtins.input=old_in; sys.argv=old_argv; profile.Profile.__init__.__defaults__=old_def
    return prompts
for ans in [{12:"relative"},{13:"-2"},{14:"3"},{13:"-2",14:"3"}]:
    if pp.exists(): pp.unlink()
    try:
        run_setup(ans)
        d=json.loads(pp.read_text()); print(ans,"->",d["range_type"],d["range_x"])
    except BaseException as e:
        print(ans,"-> setup raised",type(e).__name__,e); continue
    jpk="/repo/tests/data/fmt-jpk-fd_spot3-0192.jpk-force"
    try:
        idnt=IndentationGroup(jpk)[0]
        rating.fit_data.__wrapped__(idnt, profile_path=pp)
        print("   fit ok", idnt.fit_properties["success"])
    except BaseException as e:
        print("   fit raised",type(e).__name__,e)

# C08 degenerate
for name,arr in [("const",np.ones(100)),("decr",np.linspace(1,0,100)),("short3",np.array([0.,0,1])),("short1",np.array([1.])),("nobase",np.linspace(0,1,100)**2),("empty",np.array([]))]:
    for m in poc.POC_METHODS:
        try:
            r=poc.compute_poc(arr.copy(), m.identifier)
            s=f"{r!r}"
        except BaseException as e:
            s=f"RAISED {type(e).__name__}: {str(e)[:50]}"
        print(name, m.identifier, s)
