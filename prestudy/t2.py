import itertools, warnings
warnings.simplefilter("ignore")
from nanite import preproc
av = preproc.available()
print(av)
ids=[p.identifier for p in preproc.PREPROCESSORS]
print(ids)
for p in preproc.PREPROCESSORS: print(p.identifier, p.steps_required, p.steps_optional)
n=0; ok=0; bad=[]; nonidem=[]; changed_valid=[]
def has_req(sel):
    for s in sel:
        r = preproc.get_func(s).steps_required or []
        if not set(r)<=set(sel): return False
    return True
def valid(sel):
    try: preproc.check_order(list(sel)); return True
    except ValueError: return False
tot=0
for k in range(0,7):
    for sel in itertools.permutations(ids,k):
        tot+=1
        if not has_req(sel): continue
        n+=1
        sel=list(sel); before=list(sel)
        try:
            out=preproc.autosort(sel)
        except BaseException as e:
            bad.append((sel,repr(e))); continue
        assert sel==before
        if sorted(out)!=sorted(sel): bad.append((sel,out,"notperm"))
        if not valid(out): bad.append((sel,out,"invalid"))
        if preproc.autosort(out)!=out: nonidem.append((sel,out))
        if valid(sel) and out!=sel: changed_valid.append((sel,out))
print(tot,n,len(bad),len(nonidem),len(changed_valid))
print(bad[:5]); print(nonidem[:3]); print(changed_valid[:3])
