import warnings, itertools, copy
warnings.simplefilter("ignore")
import numpy as np
from synth import make_curve
from nanite import model as nmodel, IndentationGroup
from nanite.rate.features import IndentationFeatures as IF
md=nmodel.models_available["hertz_para"]; p0=md.get_parameter_defaults()
truth={k:p0[k].value for k in p0}; truth["E"]=3000; truth["contact_point"]=0; truth["baseline"]=0
def fitted(noise,n,scale=1.0,ret_perturb=False):
    c=make_curve("hertz_para",truth,n_app=n,n_ret=n,noise=noise,seed=5,innate_tip=True,fscale=scale,ret_perturb=ret_perturb)
    c.fit_model(model_key="hertz_para",preprocessing=[],weight_cp=0)
    return c
names=IF.get_feature_names()
print(names)
for noise,n in itertools.product([0,2e-11,1e-10],[100,700,3000]):
    a=fitted(noise,n); fa=IF.compute_features(a)
    out=[]
    for sc in [2.0**20,2.0**-20,1e3,0.37]:
        b=fitted(noise,n,scale=sc); fb=IF.compute_features(b)
        with np.errstate(all="ignore"):
            rel=np.nanmax(np.abs(fb-fa)/(np.abs(fa)+1e-300))
        out.append((sc, bool(np.array_equal(fa,fb,equal_nan=True)), float(rel), (np.isnan(fa)!=np.isnan(fb)).sum()))
    c=fitted(noise,n,ret_perturb=True); fc=IF.compute_features(c)
    print(noise,n,[round(x,4) if np.isfinite(x) else x for x in fa])
    print("    scale:",out,"retract-perturb equal:",np.array_equal(fa,fc,equal_nan=True), "Ea,Ec", a.fit_properties["params_fitted"]["E"].value==c.fit_properties["params_fitted"]["E"].value)
