import warnings, pathlib, tempfile
warnings.simplefilter("ignore")
import numpy as np, h5py
import nanite
from nanite import IndentationGroup, QMap, load_group
from synth import make_curve
from nanite import model as nmodel
md=nmodel.models_available["hertz_para"]; p0=md.get_parameter_defaults()
td=pathlib.Path(tempfile.mkdtemp(dir="/tmp/scratch"))
path=td/"map.h5"
nx,ny=3,2
order=[(x,y) for y in range(ny) for x in range(nx)][::-1]
with h5py.File(path,"w") as h5:
    for en,(ix,iy) in enumerate(order):
        tr={k:p0[k].value for k in p0}; tr["E"]=1000*(1+ix+10*iy)
        c=make_curve("hertz_para",tr,n_app=100,n_ret=100,innate_tip=False,path=str(path),enum=en)
        meta={"imaging mode":"force-distance","spring constant":0.05,"grid index x":ix,"grid index y":iy,"grid shape x":nx,"grid shape y":ny,
              "grid size x":nx*1e-6,"grid size y":ny*1e-6,"grid center x":0.0,"grid center y":0.0,"position x":(ix-nx/2+.5)*1e-6,"position y":(iy-ny/2+.5)*1e-6}
        with warnings.catch_warnings():
            c.export_data(h5, metadata=list(meta.keys()) if False else True, fmt="hdf5")
        g=h5[str(en)]
        for k,v in meta.items(): g.attrs[k]=v
cb=[]
grp=IndentationGroup(path, callback=cb.append)
print(len(grp), [g.enum for g in grp], cb[:5], type(grp[0]).__name__)
qm=QMap(grp)
with warnings.catch_warnings(record=True) as w:
    warnings.simplefilter("always")
    print(qm.get_qmap("fit: Young's modulus", qmap_only=True)); print(len(w), w[0].category.__name__)
for g in grp:
    g.apply_preprocessing(["compute_tip_position"]); g.fit_model(model_key="hertz_para", weight_cp=0)
print(qm.get_qmap("fit: Young's modulus", qmap_only=True))
print(qm.get_qmap("fit: contact point", qmap_only=True))
grp2=load_group(td, callback=cb.append); print(len(grp2))
