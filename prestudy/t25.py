import warnings, itertools
warnings.simplefilter("ignore")
import numpy as np, lmfit
from synth import make_curve
from nanite import model as nmodel
md=nmodel.models_available["hertz_para"]; p0=md.get_parameter_defaults()
truth={k:p0[k].value for k in p0}; truth["E"]=3000; truth["contact_point"]=1e-7; truth["baseline"]=5e-11
rec=[]; orig=lmfit.minimize
def wrap(fcn, params, method="leastsq", args=None, **kw):
    r=orig(fcn, params, method=method, args=args, **kw); rec.append((args[0].copy(), r.params["contact_point"].value)); return r
lmfit.minimize=wrap
base=make_curve("hertz_para",truth,n_app=80,n_ret=80,noise=2e-11,seed=3)
x=base["tip position"]; seg0=base["segment"]==0
xa=np.sort(x[seg0])
cands=[xa[10],xa[40],np.nextafter(xa[40],np.inf),np.nextafter(xa[40],-np.inf),(xa[20]+xa[21])/2,xa[-5],-np.inf,np.inf,xa[0]-1e-6]
bad=0;n=0;fails=0
for seg,k,(lo,hi) in itertools.product([0,1],[1,0.5],itertools.product(cands,repeat=2)):
    rec.clear()
    c=make_curve("hertz_para",truth,n_app=80,n_ret=80,noise=2e-11,seed=3)
    try:
        c.fit_model(model_key="hertz_para",preprocessing=[],segment=seg,gcf_k=k,range_x=[lo,hi],weight_cp=0)
    except BaseException as e:
        print("EXC",seg,k,lo,hi,type(e).__name__,e); bad+=1; continue
    n+=1
    s=c["segment"]==seg
    if lo==hi: exp=s
    else: exp=s&(x>=min(lo,hi))&(x<=max(lo,hi))
    got=c["fit range"].astype(bool)
    ok=np.array_equal(exp,got)
    fp=c.fit_properties
    if fp["success"]:
        used=rec[-1][0]/k
        ok2=np.allclose(np.sort(used),np.sort(x[exp]),rtol=1e-15,atol=0) and len(used)==exp.sum()
        ok3=np.isclose(fp["xmin"],x[exp].min(),rtol=1e-15) and np.isclose(fp["xmax"],x[exp].max(),rtol=1e-15)
    else:
        fails+=1; ok2=ok3=True
    if not (ok and ok2 and ok3): bad+=1; print("MISMATCH",seg,k,lo,hi,ok,ok2,ok3,exp.sum(),got.sum())
print("n",n,"bad",bad,"unsuccessful",fails)
