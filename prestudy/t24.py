import warnings, time, itertools, sys, os
os.environ["OMP_NUM_THREADS"]="1"
warnings.simplefilter("ignore")
import numpy as np
from synth import make_curve
from nanite import model as nmodel
from multiprocessing import Pool
MODELS=["hertz_para","hertz_cone","hertz_pyr3s","sneddon_spher_approx","power_layer_clifford_2009"]
def run(mk):
    md=nmodel.models_available[mk]; p0=md.get_parameter_defaults()
    out={}
    for rel in [0.005,0.02]:
        worst=[0,0,0]; 
        for E,cp,bl,seg,n_app,wcp,seed in itertools.product([30,3e3,3e5],[0,5e-7],[0,2e-10],[0,1],[60,300,1500],[0,5e-7],[0,1,2,3]):
            truth={k:p0[k].value for k in p0}; ek="E" if "E" in truth else "E_S"
            truth[ek]=E; truth["contact_point"]=cp; truth["baseline"]=bl
            c0=make_curve(mk,truth,n_app=n_app,n_ret=n_app); fmax=np.max(c0["force"])-bl
            idnt=make_curve(mk,truth,n_app=n_app,n_ret=n_app,noise=rel*fmax,seed=seed)
            pi=md.get_parameter_defaults(); pi[ek].value=E*3; pi["contact_point"].value=cp+1e-7; pi["baseline"].value=bl+0.1*fmax
            if mk.startswith("power"): pi["E_L"].vary=False; pi["t"].vary=False
            idnt.fit_model(model_key=mk,params_initial=pi,segment=seg,weight_cp=wcp,preprocessing=[])
            pf=idnt.fit_properties["params_fitted"]
            errs=[abs(pf[ek].value-E)/E/rel*np.sqrt(n_app), abs(pf["contact_point"].value-cp)/1e-6/rel*np.sqrt(n_app), abs(pf["baseline"].value-bl)/fmax/rel*np.sqrt(n_app)]
            worst=[max(a,b) for a,b in zip(worst,errs)]
        out[rel]=[round(w,2) for w in worst]
    return mk,out
if __name__=="__main__":
    with Pool(5) as p:
        for r in p.map(run,MODELS): print(r)
