import warnings, sys, pathlib, tempfile, copy, builtins, io, contextlib, json
warnings.simplefilter("ignore")
import numpy as np
import nanite
from nanite import model
from nanite.model import core
td=pathlib.Path(tempfile.mkdtemp(dir="/tmp/scratch"))
# C18 load failures
sp=list(sys.path)
try:
    model.load_model_from_file(td/"does_not_exist.py")
except BaseException as e:
    print("missing file ->", type(e).__name__, e)
print("sys.path same:", sp==sys.path)
(td/"syn_err.py").write_text("def (:\n")
try:
    model.load_model_from_file(td/"syn_err.py")
except BaseException as e:
    print("syntax err ->", type(e).__name__, e)
print("sys.path same:", sp==sys.path)
(td/"imp_err.py").write_text("import not_a_module_xyz\n")
try:
    model.load_model_from_file(td/"imp_err.py")
except BaseException as e:
    print("inner import err ->", type(e).__name__, e)
print("sys.path same:", sp==sys.path, "dont_write_bytecode", sys.dont_write_bytecode)
# same stem from two dirs
src=pathlib.Path("/repo/tests/data/model_external_basic.py").read_text()
(td/"a").mkdir(); (td/"b").mkdir()
(td/"a"/"mymodel.py").write_text(src.replace("hans_peter","model_a"))
(td/"b"/"mymodel.py").write_text(src.replace("hans_peter","model_b"))
ma=model.load_model_from_file(td/"a"/"mymodel.py"); mb=model.load_model_from_file(td/"b"/"mymodel.py")
print("same-stem:", ma.model_key, mb.model_key)
# dir already on sys.path first
sys.path.insert(0,str(td/"a")); sp=list(sys.path)
(td/"a"/"mymodel2.py").write_text(src.replace("hans_peter","model_a2"))
model.load_model_from_file(td/"a"/"mymodel2.py")
print("sys.path same when dir was already first:", sp==sys.path, sys.path[:2], sp[:2])
sys.path.remove(str(td/"a")) if str(td/"a") in sys.path else None

# C19
from nanite.cli import profile
pp=td/"prof.cfg"
def run_setup(answers):
    it=iter(answers)
    prompts=[]
    def fake_input(prompt=""):
        prompts.append(prompt)
        try: return next(it)
        except StopIteration: return ""
    old_in=builtins.input; builtins.input=fake_input
    old_pp=profile.PROFILE_PATH
    old_argv=sys.argv; sys.argv=["nanite-setup-profile"]
    # Profile() default arg bound at def time -> patch __init__ defaults
    old_def=profile.Profile.__init__.__defaults__
    profile.Profile.__init__.__defaults__=(pp,True)
    buf=io.StringIO()
    try:
        with contextlib.redirect_stdout(buf):
            profile.setup_profile()
    finally:
        builtins.input=old_in; sys.argv=old_argv; profile.Profile.__init__.__defaults__=old_def
    return prompts
pr=run_setup([])
print(len(pr)); 
for i,p in enumerate(pr): print(i,repr(p))
print(json.loads(pp.read_text()))
