import itertools, warnings, copy
warnings.simplefilter("ignore")
from nanite import preproc
ids=[p.identifier for p in preproc.PREPROCESSORS]
def autosort2(identifiers):
    sorted_identifiers = copy.copy(identifiers)
    for _ in range(len(identifiers)**2+1):
        changed=False
        for pid in identifiers:
            meth = preproc.get_func(pid)
            steps_precursor = []
            if meth.steps_required is not None:
                steps_precursor += meth.steps_required
            if meth.steps_optional is not None:
                for ostep in meth.steps_optional:
                    if ostep in identifiers:
                        steps_precursor.append(ostep)
            for step in steps_precursor:
                cix = sorted_identifiers.index(pid)
                rix = sorted_identifiers.index(step)
                if rix > cix:
                    sorted_identifiers.remove(step)
                    sorted_identifiers.insert(cix, step)
                    changed=True
        if not changed: break
    preproc.check_order(sorted_identifiers)
    return sorted_identifiers
def has_req(sel):
    return all(set(preproc.get_func(s).steps_required or [])<=set(sel) for s in sel)
def valid(sel):
    try: preproc.check_order(list(sel)); return True
    except ValueError: return False
bad=0;n=0;diff=0
for k in range(0,7):
    for sel in itertools.permutations(ids,k):
        if not has_req(sel): continue
        n+=1; sel=list(sel)
        try: out=autosort2(sel)
        except BaseException as e: bad+=1; continue
        assert sorted(out)==sorted(sel) and valid(out) and autosort2(out)==out
        if valid(sel): assert out==sel
        try:
            o1=preproc.autosort(sel)
            if o1!=out: diff+=1
        except ValueError: pass
print(n,bad,diff)
