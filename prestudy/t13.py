import warnings, copy
warnings.simplefilter("ignore")
import numpy as np, lmfit
from synth import make_curve
from nanite import model as nmodel
from nanite.model import residuals
md=nmodel.models_available["hertz_para"]; p0=md.get_parameter_defaults()
truth={k:p0[k].value for k in p0}; truth["E"]=3000; truth["contact_point"]=1e-7; truth["baseline"]=5e-11
calls=[]
orig=lmfit.minimize
def wrap(fcn, params, method="leastsq", args=None, **kw):
    r=orig(fcn, params, method=method, args=args, **kw)
    calls.append(dict(cp0=params["contact_point"].value, n=len(args[0]), xmin=args[0].min(), xmax=args[0].max(), cpf=r.params["contact_point"].value))
    return r
lmfit.minimize=wrap
def chk(**kw):
    calls.clear()
    i=make_curve("hertz_para",truth,n_app=150,n_ret=150,noise=2e-11,seed=3,innate_tip=True)
    i.fit_model(model_key="hertz_para",preprocessing=[],**kw)
    fp=i.fit_properties; seg=i["segment"]==fp["segment"]; x=i["tip position"]; y=i["force"]; k=fp["gcf_k"]
    rng=i["fit range"].astype(bool)
    print(kw, "success",fp["success"], "ncalls",len(calls))
    if not fp["success"]:
        print("   nan cols:", np.all(np.isnan(i["fit"])), np.all(np.isnan(i["fit residuals"])), "params_fitted" in fp); return
    pf=fp["params_fitted"]
    pk=copy.deepcopy(pf); pk["contact_point"].set(value=pf["contact_point"].value*k)
    mod=md.model(pk, x[seg]*k)
    print("   fit==model on seg:", np.array_equal(i["fit"][seg],mod), "nan elsewhere:", np.all(np.isnan(i["fit"][~seg])))
    w=np.minimum(1,np.abs(x[seg]*k-pk["contact_point"].value)/fp["weight_cp"]) if fp["weight_cp"] else 1
    res=(y[seg]-mod)*w
    print("   resid ok:", np.allclose(i["fit residuals"][seg],res,rtol=1e-12,atol=0), "chi:", fp["chi_sqr"], np.sum(i["fit residuals"][rng]**2), "rng subset seg", not np.any(rng&~seg))
    print("   xmin/xmax", fp["xmin"], x[rng].min(), fp["xmax"], x[rng].max())
    if fp["range_type"]=="relative cp":
        a,b=fp["range_x"]; cpprev=calls[-2]["cpf"]/k
        exp=seg&(x>=cpprev+a)&(x<=cpprev+b)
        print("   relcp mask ok vs prev-pass cp:", np.array_equal(exp,rng), "cp drift", pf["contact_point"].value-cpprev, [c["cp0"] for c in calls])
chk(weight_cp=5e-7)
chk(weight_cp=0, gcf_k=0.5)
chk(weight_cp=5e-7, gcf_k=0.5, segment=1)
chk(range_type="relative cp", range_x=[-8e-7,5e-7], weight_cp=0)
chk(range_type="relative cp", range_x=[-8e-7,5e-7], weight_cp=0, gcf_k=0.5)
chk(range_x=[-1.0e-6,-0.99e-6])
chk(range_type="relative cp", range_x=[-1e-9,1e-9], weight_cp=0)
