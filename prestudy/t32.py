import time, numpy as np, warnings, sys, signal
warnings.simplefilter("ignore")
from nanite import model as nmodel
md=nmodel.models_available["sneddon_spher"]
class TO(Exception): pass
def h(*a): raise TO()
signal.signal(signal.SIGALRM,h)
for cp,bl,E in [(0,0,30),(0,0,3e5),(3e-7,0,3e3),(-2e-6,1e-10,3e3)]:
    p=md.get_parameter_defaults(); p["contact_point"].set(value=cp); p["baseline"].set(value=bl); p["E"].set(value=E)
    for name,x in [("deep",np.linspace(cp+1e-6,cp-0.9*1e-5,301)),("eps",np.array([cp-1e-6*2.0**-j for j in range(1,40)])),("shifted",np.linspace(cp+1e-6,cp-0.9*1e-5,301)+2.0**-21)]:
        signal.alarm(10); t0=time.time()
        try: f=md.model(p,x); r="ok %.2fs"%(time.time()-t0)
        except TO: r="TIMEOUT >10s"
        except BaseException as e: r="EXC "+type(e).__name__
        signal.alarm(0); print(cp,bl,E,name,r); sys.stdout.flush()
