"""C12 - the fit hash identifies data plus effective settings.

GRID: per-key ordered value pairs on 4 base configurations, every
parameter attribute, single-sample perturbations at every index,
representation variants, don't-cares.  HIST: over all fitted states of the
C03 broad alphabet the relation hash <-> (data, effective settings) must
be a bijection and the stored hash must equal the recomputed one.
Process enumeration: three interpreters with different PYTHONHASHSEED."""
import itertools
import json
import os
import subprocess
import sys

import numpy as np

from .. import canon as cn
from .. import hist, synth, VERIF_ROOT
from ..core import Report, V, pmap, chunks, shuffled
from . import c03

PROP = "C12"
LEVEL = "model_checking"

P0 = ["compute_tip_position"]
P1 = ["compute_tip_position", "correct_force_offset", "correct_tip_offset"]

BASES = {
    "defaults": {},
    "plateau": {"optimal_fit_edelta": True, "optimal_fit_num_samples": 7,
                "range_x": [-5e-7, 1e-6]},
    "relative": {"range_type": "relative cp", "range_x": [-6e-7, 3e-7]},
    "retract": {"segment": 1, "weight_cp": 0},
}
DOMAINS = {
    "model_key": ["hertz_para", "hertz_cone", "sneddon_spher_approx"],
    "optimal_fit_edelta": [False, True],
    "optimal_fit_num_samples": [100, 7, 50],
    "preprocessing": [[], P0, P1],
    "preprocessing_options": [
        {}, {"correct_tip_offset": {"method": "fit_constant_line"}},
        {"correct_tip_offset": {"method": "gradient_zero_crossing"}}],
    "range_type": ["absolute", "relative cp"],
    "range_x": [[0, 0], [-5e-7, 1e-6], [-8e-7, 1e-6], [-5e-7, 5e-7],
                [1e-6, 0], [5e-7, 0],             # (inverted intervals)
                [1e-6, 1e-6]],                    # (equal, non-zero)
    "segment": [0, 1],
    "weight_cp": [1e-6, 0, 5e-7],
    "gcf_k": [1.0, 0.5, 0.23],
    "x_axis": ["tip position", "height (measured)"],
    "y_axis": ["force", "time"],
    "method": ["leastsq", "nelder"],
    "method_kws": [{}, {"max_nfev": 50}, {"max_nfev": 60}],
}
PARAM_EDITS = [
    ("value", lambda p: p.set(value=p.value * 0.9 if p.value else 1e-9)),
    ("min", lambda p: p.set(min=(p.min if np.isfinite(p.min) else 0) - 1)),
    ("max", lambda p: p.set(max=(p.max if np.isfinite(p.max) else 1e9) + 1)),
    ("vary", lambda p: p.set(vary=not p.vary)),
]


def fresh(mod=None):
    tr = synth.truth_params("hertz_para", E=3000.0, contact_point=2e-7,
                            baseline=1e-10)
    arr = synth.make_arrays("hertz_para", tr, n_app=120, n_ret=120,
                            noise=2e-11, seed=1, tilt=2e-5)
    if mod:
        col, idx, how = mod
        a = arr[col].copy()
        if how == "ulp":
            a[idx] = np.nextafter(a[idx], np.inf)
        else:
            a[idx] = a[idx] * 1.01 if a[idx] != 0 else 1e-12
        arr[col] = a
    from nanite.indent import Indentation
    meta = {"path": "/verif/scratch/synth.h5", "enum": 0,
            "spring constant": 0.05, "imaging mode": "force-distance",
            "point count": arr["force"].size}
    return Indentation(data=arr, metadata=meta)


def the_hash(idnt, settings):
    """hash for a settings vector, without fitting"""
    from nanite.fit import IndentationFitter
    import copy
    try:
        return IndentationFitter(idnt, **copy.deepcopy(settings)).hash
    except BaseException as e:
        if isinstance(e, (KeyboardInterrupt, SystemExit)):
            raise
        return "raises:" + type(e).__name__


def dont_care(key, base, v1, v2):
    eff = dict(BASES[base])
    if key == "optimal_fit_num_samples" and \
            not eff.get("optimal_fit_edelta", False):
        return True
    if key == "range_x" and eff.get("optimal_fit_edelta", False) \
            and max(v1) == max(v2):
        return True       # same upper bound: only the lower one differs
    return False


def _case(case):
    kind = case["kind"]
    out = []

    def viol(clause, wit, detail):
        out.append(V(PROP, clause, site=kind, witness=wit, detail=detail,
                     case=case, kind="grid"))
    if kind == "pair":
        base, key, v1, v2 = case["base"], case["key"], case["v1"], case["v2"]
        # every case first computes hashes for two unrelated settings
        # vectors (a process normally has): a hash must not depend on what
        # was hashed before, and the case is self-contained for replay
        the_hash(fresh(), {})
        the_hash(fresh(), dict(BASES["plateau"]))
        s1 = dict(BASES[base]); s1[key] = v1
        s2 = dict(BASES[base]); s2[key] = v2
        h1, h2 = the_hash(fresh(), s1), the_hash(fresh(), s2)
        h1b = the_hash(fresh(), s1)
        if h1 != h1b:
            viol("hash-unequal", f"{base}:{key}", f"two fresh objects with "
                 f"{key}={v1!r}: {h1} vs {h1b}")
        if h1.startswith("raises") or h2.startswith("raises"):
            return out, ("raises",)
        if key == "range_x" and v1[0] == v1[1] and v2[0] == v2[1] \
                and not dict(BASES[base]).get("optimal_fit_edelta", False):
            # two zero-width intervals select the whole segment both:
            # the setting cannot influence the result, nothing is demanded
            return out, ("equivalent",)
        if dont_care(key, base, v1, v2):
            if h1 != h2:
                viol("hash-dontcare", f"{base}:{key}", f"{v1!r} vs {v2!r} "
                     "is a documented don't-care but the hash changed")
            return out, ("dontcare",)
        if h1 == h2:
            viol("hash-collision", f"{base}:{key}",
                 f"{key}: {v1!r} -> {v2!r} leaves the hash {h1} unchanged")
        return out, ("differs",)
    if kind == "param":
        from nanite import model as nmodel
        mk = case["model"]
        P = nmodel.models_available[mk].get_parameter_defaults()
        h0 = the_hash(fresh(), {"model_key": mk, "params_initial": P})
        P2 = nmodel.models_available[mk].get_parameter_defaults()
        if case["attr"] == "expr":
            P2[case["param"]].set(expr="0.5*E" if case["param"] != "E"
                                  else "2*contact_point")
        else:
            dict(PARAM_EDITS)[case["attr"]](P2[case["param"]])
        h1 = the_hash(fresh(), {"model_key": mk, "params_initial": P2})
        P3 = nmodel.models_available[mk].get_parameter_defaults()
        h0b = the_hash(fresh(), {"model_key": mk, "params_initial": P3})
        if h0 != h0b:
            viol("hash-unequal", f"{mk}:{case['param']}", "equal parameter "
                 "sets hash differently")
        if h0 == h1:
            viol("hash-collision", f"{mk}:{case['param']}.{case['attr']}",
                 f"changing {case['attr']} of {case['param']} leaves the "
                 "hash unchanged")
        return out, ("param",)
    if kind == "exprbound":
        from nanite import model as nmodel
        mk = case["model"]

        def P_with(**kw):
            P = nmodel.models_available[mk].get_parameter_defaults()
            P["R"].set(expr="2*5e-6", min=1e-6, max=2e-5)
            P["R"].set(**kw)
            return P
        h0 = the_hash(fresh(), {"model_key": mk, "params_initial": P_with()})
        h1 = the_hash(fresh(), {"model_key": mk,
                                "params_initial": P_with(**case["edit"])})
        v0, v1 = P_with()["R"].value, P_with(**case["edit"])["R"].value
        if v0 != v1 and h0 == h1:
            viol("hash-collision", f"{mk}:R(expr).{list(case['edit'])[0]}",
                 f"bound {case['edit']} of the expression-constrained "
                 f"parameter R changes its value ({v0} -> {v1}) but not "
                 "the hash")
        return out, ("exprbound", v0 != v1)
    if kind == "sample":
        h0 = the_hash(fresh(), {})
        for idx in case["indices"]:
            for how in ("ulp", "pct"):
                h1 = the_hash(fresh((case["col"], idx, how)), {})
                if h1 == h0:
                    viol("hash-collision", f"{case['col']}[{idx}]:{how}",
                         "perturbing one data sample leaves the hash "
                         "unchanged")
        # ... and on one and the same object that was hashed before its
        # column is replaced through the column interface
        for idx in case["indices"][::5]:
            c = fresh()
            ha = the_hash(c, {})
            a = np.array(c[case["col"]], copy=True)
            a[idx] = a[idx] * 1.01 if a[idx] != 0 else 1e-12
            c[case["col"]] = a
            hb = the_hash(c, {})
            href = the_hash(fresh((case["col"], idx, "pct")), {})
            if hb == ha or hb != href:
                viol("hash-collision" if hb == ha else "hash-unequal",
                     f"{case['col']}[{idx}]:same-object",
                     "an object that was hashed, then had one sample of "
                     f"'{case['col']}' replaced: hash {hb} (before {ha}; a "
                     f"fresh object with the same data: {href})")
        return out, ("sample",)
    if kind == "repr":
        base = dict(BASES[case["base"]])
        hs = []
        for variant in _repr_variants(case["group"]):
            s = dict(base)
            s.update(variant)
            hs.append((the_hash(fresh(), s), repr(variant)[:80]))
        if len({h for h, _ in hs}) != 1:
            viol("hash-representation", case["group"],
                 f"representations hash differently: {hs}")
        return out, ("repr", len(hs))
    if kind == "refit-params":
        # initial parameters taken over from an earlier fit carry result
        # bookkeeping (stderr, correl, init_value); a set rebuilt from
        # scratch with the same name/value/min/max/vary/expr is the same
        # setting
        import copy
        import lmfit
        c = fresh()
        c.fit_model(model_key=case["model"])
        P2 = copy.deepcopy(c.fit_properties["params_fitted"])
        P3 = lmfit.Parameters()
        for n_, p_ in P2.items():
            P3.add(n_, value=float(p_.value), min=p_.min, max=p_.max,
                   vary=p_.vary, expr=p_.expr)
        P4 = copy.deepcopy(P3)
        for p_ in P4.values():
            p_.stderr = 0.123
            p_.user_data = {"note": "x"}
        s0 = {"model_key": case["model"]}
        hs = {"taken over from a fit": the_hash(
                  fresh(), dict(s0, params_initial=P2)),
              "rebuilt": the_hash(fresh(), dict(s0, params_initial=P3)),
              "rebuilt + stderr/user_data set by hand": the_hash(
                  fresh(), dict(s0, params_initial=P4))}
        if len(set(hs.values())) != 1:
            viol("hash-unequal", case["model"], "initial parameters with "
                 "equal name/value/min/max/vary/expr hash differently: "
                 f"{hs}")
        return out, ("refit-params",)
    if kind == "entry":
        # the same fit requested in different ways: equal data and equal
        # *effective* settings (the initial parameters that are estimated
        # when none are given included) -> equal hashes
        from nanite.fit import IndentationFitter
        import copy
        s = dict(BASES[case["base"]], model_key=case["model"])
        hs = {}
        hs["IndentationFitter(curve, **settings)"] = the_hash(fresh(), s)
        c = fresh()
        try:
            c.fit_model(**copy.deepcopy(s))
            hs["fit_model(**settings)"] = c.fit_properties.get("hash")
            hs["IndentationFitter(fitted curve)"] = \
                IndentationFitter(c).hash
        except BaseException as e:
            if isinstance(e, (KeyboardInterrupt, SystemExit)):
                raise
            hs["fit_model(**settings)"] = "raises:" + type(e).__name__
        c = fresh()
        for k, v in copy.deepcopy(s).items():
            c.fit_properties[k] = v
        hs["settings stored, then IndentationFitter(curve)"] = \
            the_hash(c, {})
        c = fresh()
        try:
            P = c.get_initial_fit_parameters(model_key=case["model"],
                                             common_ancillaries=True,
                                             model_ancillaries=True)
            hs["explicit estimated parameters"] = the_hash(
                fresh(), dict(s, params_initial=P))
        except BaseException as e:
            if isinstance(e, (KeyboardInterrupt, SystemExit)):
                raise
        if len(set(hs.values())) != 1:
            viol("hash-unequal", f"{case['base']}:{case['model']}",
                 f"one fit, requested in different ways: {hs}")
        return out, ("entry", len(hs))
    raise RuntimeError("harness: unknown case kind")


def _perm_dict(d):
    for perm in itertools.permutations(list(d.items())):
        yield dict(perm)


def _repr_variants(group):
    if group == "range_x":
        return [{"range_x": [-5e-7, 1e-6]}, {"range_x": (-5e-7, 1e-6)},
                {"range_x": [np.float64(-5e-7), np.float64(1e-6)]}]
    if group == "range_x_int":
        return [{"range_x": [0, 0]}, {"range_x": (0, 0)},
                {"range_x": [0.0, 0.0]}, {"range_x": (0.0, 0)}]
    if group == "weight_cp":
        return [{"weight_cp": 0}, {"weight_cp": 0.0}, {"weight_cp": False},
                {"weight_cp": np.float64(0)}]
    if group == "gcf_k":
        return [{"gcf_k": 1}, {"gcf_k": 1.0}, {"gcf_k": np.float64(1.0)},
                {"gcf_k": True}]
    if group == "edelta":
        return [{"optimal_fit_edelta": True, "optimal_fit_num_samples": 7,
                 "range_x": [-5e-7, 1e-6]},
                {"optimal_fit_edelta": 1, "optimal_fit_num_samples": 7.0,
                 "range_x": [-5e-7, 1e-6]},
                {"optimal_fit_edelta": np.bool_(True),
                 "optimal_fit_num_samples": 7,
                 "range_x": (-5e-7, 1e-6)}]
    if group == "segment0":
        return [{"segment": 0}, {"segment": "approach"}]
    if group == "segment1":
        return [{"segment": 1}, {"segment": "retract"}]
    if group == "method_kws":
        return [{"method": "nelder", "method_kws": d} for d in
                _perm_dict({"max_nfev": 50, "tol": 1e-9, "calc_covar": False})]
    if group == "options":
        outer = {"correct_tip_offset": {"method": "fit_constant_line"},
                 "correct_force_slope": {"region": "all",
                                         "strategy": "drift"}}
        res = []
        for o in _perm_dict(outer):
            for inner in _perm_dict(o["correct_force_slope"]):
                o2 = dict(o)
                o2["correct_force_slope"] = inner
                # keep the outer insertion order of `o`
                res.append({"preprocessing_options":
                            {k: o2[k] for k in o}})
        return res
    raise RuntimeError("harness: unknown group")


REPR_GROUPS = ["range_x", "range_x_int", "weight_cp", "gcf_k", "edelta",
               "segment0", "segment1", "method_kws", "options"]


def grid_cases():
    from nanite import model as nmodel
    cases = []
    for base in BASES:
        for key, dom in DOMAINS.items():
            for v1, v2 in itertools.permutations(dom, 2):
                cases.append({"kind": "pair", "base": base, "key": key,
                              "v1": v1, "v2": v2})
    for mk in synth.MODELS5:
        P = nmodel.models_available[mk].get_parameter_defaults()
        for pn in P:
            for attr in ("value", "min", "max", "vary", "expr"):
                cases.append({"kind": "param", "model": mk, "param": pn,
                              "attr": attr})
    for mk in ("hertz_para", "sneddon_spher_approx"):
        for edit in ({"max": 5e-6}, {"min": 1.5e-5}, {"max": 8e-6},
                     {"expr": "3*5e-6"}):
            cases.append({"kind": "exprbound", "model": mk, "edit": edit})
    for col in ("force", "tip position"):
        for lo in range(0, 240, 20):
            cases.append({"kind": "sample", "col": col,
                          "indices": list(range(lo, lo + 20))})
    for mk in ("hertz_para", "hertz_cone", "sneddon_spher_approx"):
        cases.append({"kind": "refit-params", "model": mk})
    for base in BASES:
        for mk in ("hertz_para", "hertz_cone", "sneddon_spher_approx"):
            cases.append({"kind": "entry", "base": base, "model": mk})
    for base in ("defaults", "retract"):
        for g in REPR_GROUPS:
            cases.append({"kind": "repr", "base": base, "group": g})
    return cases


def _work(chunk):
    return [(_case(c)) for c in chunk]


class FittedStates(c03.Broad):
    """C03's broad alphabet without the differential oracle: collects
    (hash, effective-settings digest) of every fitted state."""
    name = "fitted_states"
    prop = PROP

    def check_state(self, w, hops):
        from nanite.fit import IndentationFitter
        fp = w.idnt.fit_properties
        if "hash" not in fp:
            return []
        try:
            h = IndentationFitter(w.idnt).hash
        except BaseException as e:
            return [V(PROP, "hash-stored-differs", site="state",
                      witness="recompute-raises", detail=repr(e),
                      case=self.case(hops), kind="hist")]
        if h != fp["hash"]:
            return [V(PROP, "hash-stored-differs", site="state",
                      witness=json.dumps(hops[-1])[:80],
                      detail=f"stored hash {fp['hash']} != hash recomputed "
                      f"from the post-fit object {h}",
                      case=self.case(hops), kind="hist")]
        return []

    def check_transition(self, pre, op, obs, w, hops):
        return []

    def state_stats(self, w):
        fp = w.idnt.fit_properties
        if "hash" in fp:
            return {"hashpair": (fp["hash"], c03._effective_digest(w.idnt),
                                 "")}
        return {}


def hops_key(w):
    return None


DRIVERS = {"fitted_states": FittedStates()}


def table():
    out = []
    for c in grid_cases():
        if c["kind"] == "pair" and c["base"] in ("defaults", "plateau"):
            s = dict(BASES[c["base"]]); s[c["key"]] = c["v1"]
            out.append(the_hash(fresh(), s))
        elif c["kind"] == "repr":
            for variant in _repr_variants(c["group"]):
                s = dict(BASES[c["base"]]); s.update(variant)
                out.append(the_hash(fresh(), s))
    return out


def replay(doc):
    if doc.get("kind") == "grid":
        return _case(doc["case"])[0]
    return hist.replay_case(doc["case"])


def run(tier):
    rep = Report(PROP, tier, LEVEL)
    procs = []
    for hs in ("0", "1", "4242"):
        env = dict(os.environ, PYTHONHASHSEED=hs)
        procs.append(subprocess.Popen(
            [sys.executable, "-m", "mc.props.c12", "--table"], env=env,
            cwd=VERIF_ROOT, stdout=subprocess.PIPE, stderr=subprocess.PIPE,
            text=True))
    cases = grid_cases()
    classes = {}
    for res in pmap(_work, chunks(shuffled(cases), 20)):
        for vs, cl in res:
            rep.add("grid_cases")
            rep.extend(vs)
            classes[cl] = classes.get(cl, 0) + 1
    rep.set("grid_outcome_classes", {str(k): v for k, v in classes.items()})
    rep.sample(cases[0])
    rep.sample(cases[len(cases) // 2])
    rep.sample(cases[-1])
    # (vi) bijection over fitted states
    drv = DRIVERS["fitted_states"]
    depth = 3 if tier == "quick" else 4
    seen, info = hist.search(drv, rep, depth, merge_check=False)
    pairs = info["raw_stats"].get("hashpair", set())
    by_hash, by_eff = {}, {}
    for h, eff, _ in pairs:
        by_hash.setdefault(h, set()).add(eff)
        by_eff.setdefault(eff, set()).add(h)
    for h, effs in by_hash.items():
        if len(effs) > 1:
            rep.violate(V(PROP, "hash-collision", site="fitted-states",
                          witness="bijection", detail=f"hash {h} is shared "
                          f"by {len(effs)} different (data, settings)",
                          case={"hash": h}, kind="bijection"))
    for eff, hs in by_eff.items():
        if len(hs) > 1:
            rep.violate(V(PROP, "hash-unequal", site="fitted-states",
                          witness="bijection", detail="equal (data, "
                          f"effective settings) have hashes {sorted(hs)}",
                          case={"eff": eff}, kind="bijection"))
    rep.set("fitted_state_hashes", len(by_hash))
    rep.set("fitted_state_effective_settings", len(by_eff))
    rep.add("traces_validated_against_impl", len(cases))
    tabs = []
    for p in procs:
        o, e = p.communicate(timeout=900)
        if p.returncode != 0:
            rep.harness("process enumeration failed: " + e[-400:])
            break
        tabs.append(json.loads(o.strip().splitlines()[-1]))
    if len(tabs) == 3:
        rep.set("process_table_entries", len(tabs[0]))
        if not (tabs[0] == tabs[1] == tabs[2]):
            n = sum(1 for a, b, c in zip(*tabs) if not a == b == c)
            rep.violate(V(PROP, "hash-process", site="process",
                          witness="PYTHONHASHSEED",
                          detail=f"{n} hashes differ between interpreters "
                          "with different hash seeds", case={}, kind="proc"))
    rep.set("exhaustive", True)
    rep.set("bounds", {"fitted_states_depth": depth,
                       "bases": list(BASES), "domains": DOMAINS})
    rep.assumptions += [
        "value domains are realistic physical values; crafted decimal "
        "strings that collide under un-delimited concatenation and numpy "
        "integer scalars are outside the alphabet (DESIGN O5, O6)",
    ]
    return rep


if __name__ == "__main__":
    import mc
    mc.assert_tree()
    print(json.dumps(table()))
