"""C05 - exactly the requested points are fitted.  Exhaustive grid over
curve x segment x all ordered pairs of interval endpoints from a boundary
set built from the curve itself x range type x plateau search x k, with
every optimisation pass monitored from the harness."""
import itertools

import numpy as np

from .. import grid, ops, synth
from ..core import Report, V

PROP = "C05"
LEVEL = "exploration"

CP = 1.2e-7
CURVES = {"para": ("hertz_para", 3000.0, 2e-11),
          "cone": ("hertz_cone", 9000.0, 1e-10),
          "sneddon-clean": ("sneddon_spher_approx", 2000.0, 0.0)}


def make(curve, preprocessed=False):
    mk, E, noise = CURVES[curve]
    tr = synth.truth_params(mk, E=E, contact_point=CP, baseline=3e-11)
    c = synth.make_curve(mk, tr, n_app=140, n_ret=120, x_start=1.0e-6,
                         depth=9e-7, noise=noise, seed=3,
                         nonuniform=(curve == "cone"))
    return c, mk


def seg_x(idnt, seg):
    x = np.asarray(idnt["tip position"], dtype=float)
    s = np.asarray(idnt["segment"]) == seg
    return x, s


def boundary_set(idnt, seg):
    """endpoints built from the curve itself (absolute units)"""
    x, s = seg_x(idnt, seg)
    xs = np.sort(x[s])
    a, b = xs[25], xs[95]
    vals = [float(a), float(b),
            float((xs[25] + xs[26]) / 2), float((xs[94] + xs[95]) / 2),
            float(np.nextafter(a, -np.inf)), float(np.nextafter(a, np.inf)),
            float(np.nextafter(b, np.inf)), float(np.nextafter(b, -np.inf)),
            float(xs[0]), float(xs[-1]), -np.inf, np.inf]
    return vals


def case_abs(case):
    """absolute ranges: one row of the endpoint matrix (all `hi` for one
    `lo`), so that a curve is built once per row"""
    out = []
    idnt0, mk = make(case["curve"])
    seg, k = case["segment"], case["k"]
    bset = boundary_set(idnt0, seg)
    lo = bset[case["lo_index"]]
    nsucc = 0
    for hi in bset:
        idnt, _ = make(case["curve"])
        x, s = seg_x(idnt, seg)
        sub = dict(case, hi=hi, lo=lo)
        ops.install_counters()
        ops.Counters.passes = []

        def viol(clause, wit, detail):
            out.append(V(PROP, clause, site=f"absolute:k={k}", witness=wit,
                         detail=detail, case=sub, kind="abs"))
        try:
            idnt.fit_model(model_key=mk, segment=seg, range_x=[lo, hi],
                           range_type="absolute", gcf_k=k, weight_cp=0)
        except BaseException as e:
            if isinstance(e, (KeyboardInterrupt, SystemExit, MemoryError)):
                raise
            viol("fit-raises", f"[{lo},{hi}]", repr(e))
            continue
        finally:
            passes, ops.Counters.passes = ops.Counters.passes, None
        rmin, rmax = min(lo, hi), max(lo, hi)
        if lo == hi:
            mask = s.copy()
        else:
            mask = s & (x >= rmin) & (x <= rmax)
        fp = idnt.fit_properties
        rng = np.asarray(idnt["fit range"]).astype(bool)
        wit = f"lo#{case['lo_index']},hi#{bset.index(hi)}"
        if not np.array_equal(rng, mask):
            viol("mask-zero-width" if lo == hi else "mask-absolute", wit,
                 f"range [{lo!r}, {hi!r}]: 'fit range' selects "
                 f"{int(rng.sum())} points, the closed interval holds "
                 f"{int(mask.sum())}; differing indices "
                 f"{np.flatnonzero(rng != mask)[:6].tolist()}")
        if fp.get("success"):
            nsucc += 1
            if len(passes) != 1:
                viol("mask-absolute", wit, f"{len(passes)} optimisations")
            else:
                if not np.array_equal(passes[0]["x"], x[mask] * k):
                    viol("mask-absolute", wit, "the abscissa handed to the "
                         "optimiser is not the set of requested points "
                         f"({passes[0]['x'].size} vs {int(mask.sum())})")
            xm, xM = x[mask].min(), x[mask].max()
            for key, ref in (("xmin", xm), ("xmax", xM)):
                if not abs(fp[key] - ref) <= 4 * np.spacing(abs(ref)):
                    viol("xmin-xmax", f"{key}:{wit}", f"{key}={fp[key]!r}, "
                         f"extreme abscissa of the used points {ref!r}")
        else:
            if mask.sum() > 4:
                viol("mask-absolute", wit, f"unsuccessful although "
                     f"{int(mask.sum())} points lie in the interval")
    return out, ("abs", nsucc > 0)


def case_rel(case):
    out = []
    idnt, mk = make(case["curve"])
    seg, k = case["segment"], case["k"]
    a, b = case["a"], case["b"]
    x, s = seg_x(idnt, seg)
    ops.install_counters()
    ops.Counters.passes = []

    def viol(clause, wit, detail):
        out.append(V(PROP, clause, site=f"relative:k={k}", witness=wit,
                     detail=detail, case=case, kind="rel"))
    try:
        idnt.fit_model(model_key=mk, segment=seg, range_x=[a, b],
                       range_type="relative cp", gcf_k=k, weight_cp=0)
    except BaseException as e:
        if isinstance(e, (KeyboardInterrupt, SystemExit, MemoryError)):
            raise
        ops.Counters.passes = None
        return out, ("rel-raises", type(e).__name__)
    passes, ops.Counters.passes = ops.Counters.passes, None
    fp = idnt.fit_properties
    wit = f"[{a},{b}]"
    if not fp.get("success"):
        return out, ("rel-unsuccessful", len(passes))
    # pass 1: the whole segment; pass n+1: [cp_n + a, cp_n + b]
    if not np.array_equal(passes[0]["x"], x[s] * k):
        viol("mask-relative", wit + ":pass1", "the first pass does not use "
             "the whole segment")
    rmin, rmax = min(a, b), max(a, b)
    for n in range(1, len(passes)):
        cpn = passes[n - 1]["cp_out"] / k
        lo, hi = cpn + rmin, cpn + rmax
        mask = s & (x >= lo) & (x <= hi) if a != b else s
        if not np.array_equal(passes[n]["x"], x[mask] * k):
            # tolerate samples within rounding of the interval ends
            near = s & ((np.abs(x - lo) < 1e-15) | (np.abs(x - hi) < 1e-15))
            m2 = set(np.round(passes[n]["x"] / k, 18))
            m1 = set(np.round(x[mask], 18))
            if (m1 ^ m2) - set(np.round(x[near], 18)):
                viol("mask-relative", wit + f":pass{n + 1}",
                     f"pass {n + 1} uses {passes[n]['x'].size} points, "
                     f"[cp_{n} + a, cp_{n} + b] with cp_{n}={cpn!r} holds "
                     f"{int(mask.sum())}")
    # reported columns describe the last pass
    rng = np.asarray(idnt["fit range"]).astype(bool)
    if not np.array_equal(x[rng] * k, passes[-1]["x"]):
        viol("mask-relative", wit + ":column", "'fit range' is not the "
             "point set of the last pass")
    cp = fp["params_fitted"]["contact_point"].value
    cpprev = passes[-2]["cp_out"] / k if len(passes) > 1 else cp
    slack = abs(cp - cpprev) + 1e-15
    if a != b:
        lo, hi = cp + rmin, cp + rmax
        inner = s & (x >= lo + slack) & (x <= hi - slack)
        outer = s & (x >= lo - slack) & (x <= hi + slack)
        if np.any(inner & ~rng) or np.any(rng & ~outer):
            viol("mask-relative", wit + ":converged", "at convergence the "
                 f"mask is not [cp+a, cp+b] (cp={cp!r}, slack {slack:.2e})")
    xm, xM = x[rng].min(), x[rng].max()
    for key, ref in (("xmin", xm), ("xmax", xM)):
        if not abs(fp[key] - ref) <= 4 * np.spacing(abs(ref)):
            viol("xmin-xmax", key, f"{key}={fp[key]!r}, extreme abscissa "
                 f"of the used points {ref!r}")
    return out, ("rel", len(passes))


def case_plateau(case):
    out = []
    mk0, E, noise = CURVES[case["curve"]]
    idnt, mk = make(case["curve"])
    k, ns = case["k"], case["num_samples"]
    hi = case["hi"]
    # tip position relative to the contact point (the search needs it)
    idnt.apply_preprocessing(["compute_tip_position"])
    x0 = np.asarray(idnt["tip position"], dtype=float)
    idnt["tip position"] = x0 - CP
    x, s = seg_x(idnt, 0)
    ops.install_counters()
    ops.Counters.passes = []

    def viol(clause, wit, detail):
        out.append(V(PROP, clause, site=f"plateau:k={k}", witness=wit,
                     detail=detail, case=case, kind="plateau"))
    try:
        idnt.fit_model(model_key=mk, segment=0, range_x=[case["lo"], hi],
                       range_type="absolute", gcf_k=k, weight_cp=0,
                       optimal_fit_edelta=True, optimal_fit_num_samples=ns)
    except BaseException as e:
        if isinstance(e, (KeyboardInterrupt, SystemExit, MemoryError)):
            raise
        ops.Counters.passes = None
        viol("fit-raises", f"ns={ns}", repr(e))
        return out, ("plateau-raises", type(e).__name__)
    passes, ops.Counters.passes = ops.Counters.passes, None
    fp = idnt.fit_properties
    wit = f"ns={ns},hi={hi}"
    da = np.asarray(fp.get("optimal_fit_delta_array", []))
    ea = np.asarray(fp.get("optimal_fit_E_array", []))
    dopt = fp.get("optimal_fit_delta")
    if da.size != ns or ea.size != ns:
        viol("plateau-count", wit, f"scan arrays have {da.size}/{ea.size} "
             f"entries, {ns} requested")
    d = np.diff(da)
    if not (np.all(d > 0) or np.all(d < 0)):
        viol("plateau-grid", wit, "depth grid is not strictly monotonic")
    if dopt is None or not (da.min() <= dopt <= da.max()):
        viol("plateau-inside", wit, f"optimal depth {dopt!r} outside the "
             f"scanned depths [{da.min()!r}, {da.max()!r}]")
    if fp.get("success") and dopt is not None:
        upper = max(case["lo"], hi)
        if np.isinf(upper):
            upper = np.inf
        mask = s & (x >= dopt) & (x <= upper)
        rng = np.asarray(idnt["fit range"]).astype(bool)
        if not np.array_equal(rng, mask):
            viol("plateau-bound", wit, f"final mask has {int(rng.sum())} "
                 f"points, [optimal depth, upper bound] = [{dopt!r}, "
                 f"{upper!r}] holds {int(mask.sum())}")
        if len(passes) != ns + 1:
            viol("plateau-count", wit, f"{len(passes)} optimisations for "
                 f"{ns} samples + final fit")
        elif not np.array_equal(passes[-1]["x"], x[mask] * k):
            viol("plateau-bound", wit, "the final optimisation did not use "
                 "[optimal depth, upper bound]")
        # every scan pass uses [depth_i, upper]
        for i in range(min(ns, len(passes) - 1)):
            mi = s & (x >= da[i]) & (x <= upper)
            if not np.array_equal(passes[i]["x"], x[mi] * k):
                viol("plateau-grid", wit + f":scan{i}", "scan pass does not "
                     "use [depth_i, upper bound]")
                break
        if not abs(fp["xmin"] - x[mask].min()) <= 4 * np.spacing(
                abs(x[mask].min())):
            viol("xmin-xmax", "plateau:xmin", f"{fp['xmin']!r} vs "
                 f"{x[mask].min()!r}")
    return out, ("plateau", bool(fp.get("success")))


def case_scan(case):
    """compute_emodulus_mindelta / fits with changing sample counts on one
    object: the scan arrays always have the *currently* requested number
    of samples on a monotonic depth grid"""
    out = []
    idnt, mk = make(case["curve"])
    idnt.apply_preprocessing(["compute_tip_position"])
    x0 = np.asarray(idnt["tip position"], dtype=float)
    idnt["tip position"] = x0 - CP
    n = 0
    for step, (how, ns) in enumerate(case["sequence"]):
        sub = dict(case, upto=step)
        try:
            if how == "set":
                idnt.fit_properties["optimal_fit_num_samples"] = ns
            elif how == "fit":
                idnt.fit_model(model_key=mk, weight_cp=0,
                               optimal_fit_num_samples=ns)
            elif how == "fit-plateau":
                idnt.fit_model(model_key=mk, weight_cp=0,
                               optimal_fit_edelta=True,
                               optimal_fit_num_samples=ns)
            elif how == "plateau-off":
                idnt.fit_model(model_key=mk, optimal_fit_edelta=False)
            e, d = idnt.compute_emodulus_mindelta()
        except BaseException as ex:
            if isinstance(ex, (KeyboardInterrupt, SystemExit, MemoryError)):
                raise
            out.append(V(PROP, "fit-raises", site="scan-sequence",
                         witness=f"step{step}:{how}", detail=repr(ex),
                         case=sub, kind="scan"))
            break
        n += 1
        want = idnt.fit_properties.get("optimal_fit_num_samples", 100)
        dd = np.diff(np.asarray(d))
        if len(e) != want or len(d) != want:
            out.append(V(PROP, "plateau-count", site="scan-sequence",
                         witness=f"step{step}:{how}", detail=f"{want} "
                         f"samples requested, scan arrays have {len(e)} / "
                         f"{len(d)} entries after {case['sequence'][:step+1]}",
                         case=sub, kind="scan"))
        elif not (np.all(dd > 0) or np.all(dd < 0)):
            out.append(V(PROP, "plateau-grid", site="scan-sequence",
                         witness=f"step{step}:{how}", detail="depth grid "
                         "not strictly monotonic", case=sub, kind="scan"))
    return out, ("scan", n > 0)


#: calls that change the interval and/or switch the plateau search in one
#: fit_model call; keywords are listed (and passed) in this order
SWITCH_CALLS = {
    "A": [["optimal_fit_edelta", True], ["optimal_fit_num_samples", 7],
          ["range_x", [-5e-7, 5e-7]]],
    "B1": [["range_x", [-2e-7, 5e-7]], ["optimal_fit_edelta", False]],
    "B2": [["optimal_fit_edelta", False], ["range_x", [-2e-7, 5e-7]]],
    "C": [["range_x", [-5e-7, 3e-7]]],
    "D1": [["range_x", [-3.5e-7, 5e-7]], ["optimal_fit_edelta", True]],
    "D2": [["optimal_fit_edelta", True], ["range_x", [-3.5e-7, 5e-7]]],
    "E": [["range_x", [-6e-7, 6e-7]], ["optimal_fit_edelta", False],
          ["range_type", "absolute"]],
}


def case_switch(case):
    """a history of fit_model calls, each giving several settings at once:
    after every call the fitted points are those of the interval given
    last (plateau search off), or [optimal depth, upper bound given last]
    (plateau search on)"""
    out = []
    idnt, mk = make(case["curve"])
    idnt.apply_preprocessing(["compute_tip_position"])
    x0 = np.asarray(idnt["tip position"], dtype=float)
    idnt["tip position"] = x0 - CP
    x, s = seg_x(idnt, 0)
    want_rng, want_plateau = [0, 0], False
    idnt.fit_model(model_key=mk, segment=0, weight_cp=0,
                   range_type="absolute")
    nfit = 0
    for step, cid in enumerate(case["calls"]):
        sub = dict(case, upto=step)
        kw = {k: v for k, v in SWITCH_CALLS[cid]}     # insertion order
        for k, v in SWITCH_CALLS[cid]:
            if k == "range_x":
                want_rng = list(v)
            elif k == "optimal_fit_edelta":
                want_plateau = v
        wit = "->".join(case["calls"][:step + 1])

        def viol(clause, detail):
            out.append(V(PROP, clause, site="call-history", witness=wit,
                         detail=detail, case=sub, kind="switch"))
        try:
            idnt.fit_model(**kw)
        except BaseException as e:
            if isinstance(e, (KeyboardInterrupt, SystemExit, MemoryError)):
                raise
            viol("fit-raises", repr(e))
            break
        fp = idnt.fit_properties
        if not fp.get("success"):
            viol("mask-absolute", "unsuccessful fit")
            break
        nfit += 1
        rng = np.asarray(idnt["fit range"]).astype(bool)
        lo, hi = min(want_rng), max(want_rng)
        if want_plateau:
            dopt = fp.get("optimal_fit_delta")
            mask = s & (x >= dopt) & (x <= hi) if dopt is not None else None
            clause = "plateau-bound"
        else:
            mask = s & (x >= lo) & (x <= hi)
            clause = "mask-absolute"
        if mask is None or not np.array_equal(rng, mask):
            viol(clause, f"after the calls {wit} (interval given last "
                 f"{want_rng}, plateau search {want_plateau}) the fitted "
                 f"points are {int(rng.sum())}, x in "
                 f"[{x[rng].min() if rng.any() else None!r}, "
                 f"{x[rng].max() if rng.any() else None!r}]; expected "
                 f"{None if mask is None else int(mask.sum())} points")
            break
        for key, ref in (("xmin", x[mask].min()), ("xmax", x[mask].max())):
            if not abs(fp[key] - ref) <= 4 * np.spacing(abs(ref)):
                viol("xmin-xmax", f"{key}={fp[key]!r}, extreme abscissa of "
                     f"the used points {ref!r}")
    return out, ("switch", nfit)


def case_fitter(case):
    """the fit is requested from IndentationFitter with keyword arguments,
    on a curve that was never fitted"""
    from nanite.fit import IndentationFitter
    out = []
    idnt, mk = make(case["curve"])
    idnt.apply_preprocessing(["compute_tip_position"])
    x0 = np.asarray(idnt["tip position"], dtype=float)
    idnt["tip position"] = x0 - CP
    seg = case["segment"]
    x, s = seg_x(idnt, seg)
    lo, hi = case["lo"], case["hi"]

    def viol(clause, wit, detail):
        out.append(V(PROP, clause, site="IndentationFitter", witness=wit,
                     detail=detail, case=case, kind="fitter"))
    try:
        f = IndentationFitter(idnt, model_key=mk, segment=seg,
                              range_x=[lo, hi], range_type="absolute",
                              weight_cp=0)
        f.fit()
    except BaseException as e:
        if isinstance(e, (KeyboardInterrupt, SystemExit, MemoryError)):
            raise
        viol("fit-raises", f"[{lo},{hi}]", repr(e))
        return out, ("fitter-raises",)
    mask = s & (x >= min(lo, hi)) & (x <= max(lo, hi)) if lo != hi else s
    rng = np.asarray(f.fit_range).astype(bool)
    if not np.array_equal(rng, mask):
        viol("mask-absolute", f"seg={seg},[{lo},{hi}]", "IndentationFitter("
             f"idnt, segment={seg}, range_x=[{lo}, {hi}]) fitted "
             f"{int(rng.sum())} points ({int((rng & ~s).sum())} of another "
             f"segment), the interval holds {int(mask.sum())}")
    elif f.fp.get("success"):
        for key, ref in (("xmin", x[mask].min()), ("xmax", x[mask].max())):
            if not abs(f.fp[key] - ref) <= 4 * np.spacing(abs(ref)):
                viol("xmin-xmax", key, f"{key}={f.fp[key]!r} vs {ref!r}")
    if seg == 0:
        ns = case["num_samples"]
        try:
            f2 = IndentationFitter(idnt, model_key=mk, segment=0,
                                   weight_cp=0, optimal_fit_num_samples=ns)
            e, d = f2.compute_emodulus_vs_mindelta()
            if len(e) != ns or len(d) != ns:
                viol("plateau-count", f"ns={ns}", f"{ns} samples requested, "
                     f"scan arrays have {len(e)} / {len(d)} entries")
        except BaseException as e:
            if isinstance(e, (KeyboardInterrupt, SystemExit, MemoryError)):
                raise
            viol("fit-raises", f"scan:ns={ns}", repr(e))
    return out, ("fitter", bool(f.fp.get("success")))


def cases(tier):
    cs = []
    ks = [1.0, 0.5]
    for curve in ("para", "cone"):
        for seg in (0, 1):
            for lo, hi in ((-5e-7, 5e-7), (4e-7, -6e-7), (-3e-7, np.inf),
                           (0.0, 0.0)):
                cs.append({"kind": "fitter", "curve": curve, "segment": seg,
                           "lo": lo, "hi": hi, "num_samples": 12})
    for curve in ("para", "cone"):
        ids = sorted(SWITCH_CALLS)
        for n in (1, 2, 3):
            if n == 3 and (tier == "quick" and curve == "cone"):
                continue
            for seq in itertools.product(ids, repeat=n):
                cs.append({"kind": "switch", "curve": curve,
                           "calls": list(seq)})
    import itertools as _it
    hows = [("set", 7), ("set", 12), ("fit", 9), ("fit-plateau", 8),
            ("plateau-off", None), ("fit", 7)]
    for curve in ("para", "cone"):
        for seq in _it.permutations(hows, 3):
            cs.append({"kind": "scan", "curve": curve,
                       "sequence": [list(s) for s in seq]})
    for curve in CURVES:
        for seg in (0, 1):
            for k in ks:
                for lo_i in range(12):
                    if tier == "quick" and curve == "sneddon-clean" \
                            and k == 0.5:
                        continue
                    cs.append({"kind": "abs", "curve": curve, "segment": seg,
                               "k": k, "lo_index": lo_i})
                rel = [(-6e-7, 3e-7), (-3e-7, 1e-7), (-8e-7, 0.0),
                       (0.0, 0.0), (3e-7, -6e-7), (-np.inf, 2e-7),
                       (-5e-7, np.inf)]
                for a, b in rel:
                    cs.append({"kind": "rel", "curve": curve, "segment": seg,
                               "k": k, "a": a, "b": b})
        for k in ks:
            for ns in (7, 10, 25):
                for lo, hi in ((-5e-7, 5e-7), (0.0, 8e-7), (-2e-7, np.inf),
                               (3e-7, -1e-7), (6e-7, 0.0),
                               # zero width away from zero: with the search
                               # on, its value is the upper bound
                               (5e-7, 5e-7), (9e-7, 9e-7)):
                    if tier == "quick" and ns == 25 and k == 0.5:
                        continue
                    cs.append({"kind": "plateau", "curve": curve, "k": k,
                               "num_samples": ns, "lo": lo, "hi": hi})
    return cs


def case_fn(case):
    return {"abs": case_abs, "rel": case_rel, "plateau": case_plateau,
            "scan": case_scan, "switch": case_switch,
            "fitter": case_fitter}[case["kind"]](case)


def replay(doc):
    case = dict(doc["case"])
    vs = case_fn(case)[0]
    if case["kind"] == "abs" and "hi" in case:
        vs = [v for v in vs if v["case"].get("hi") == case["hi"]
              or (np.isnan(case["hi"]) if isinstance(case["hi"], float)
                  else False)]
    return vs


def run(tier):
    rep = Report(PROP, tier, LEVEL)
    cs = cases(tier)
    cl = grid.run_cases(rep, __name__, "case_fn", cs, chunk=4,
                        label="configurations")
    nabs = sum(1 for c in cs if c["kind"] == "abs") * 12
    rep.set("absolute_interval_pairs", nabs)
    rep.set("outcome_classes", {str(k): v for k, v in sorted(
        cl.items(), key=str)})
    rep.set("distinct_nontrivial", sum(
        v for k, v in cl.items()
        if k[0] in ("abs", "rel", "plateau", "scan") and k[1]))
    rep.set("rule", "all ordered pairs of 12 boundary candidates per curve "
            "and segment (on samples, between samples, 1-ulp neighbours, "
            "segment ends, +-inf) for absolute ranges; 7 relative "
            "intervals; plateau search with 3 sample counts x 4 ranges; "
            "k in {1, 0.5}; non-trivial = at least one completed fit")
    rep.set("exhaustive", True)
    rep.sample(cs[0])
    rep.sample([c for c in cs if c["kind"] == "rel"][0])
    rep.sample([c for c in cs if c["kind"] == "plateau"][0])
    rep.assumptions += [
        "plateau search needs >= 7 samples (scipy filtfilt) and is "
        "combined with the approach segment only (DESIGN O2, O10)",
        "relative ranges: samples within 1e-15 m of an interval end may "
        "fall on either side (cp*k/k rounding)",
    ]
    return rep
