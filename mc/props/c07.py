"""C07 - each preprocessing step does what its description says.
Exhaustive grid over a family of well-formed curves x step x every option
value; each step is applied as the last step of its minimal valid pipeline
and compared with the state just before it (relational oracles)."""
import itertools

import numpy as np

from .. import canon as cn
from .. import grid, synth
from ..core import Report, V

PROP = "C07"
LEVEL = "exploration"

T = ["compute_tip_position"]
HEIGHTS = ["height (measured)", "height (piezo)", "tip position"]
MODEL_E = {"hertz_para": 3000.0, "hertz_cone": 2.5e4, "hertz_pyr3s": 1e5,
           "sneddon_spher_approx": 3000.0,
           "power_layer_clifford_2009": 3000.0}
RECORDED = [
    "fmt-jpk-fd_spot3-0192.jpk-force",
    "fmt-jpk-fd_single_tilted-baseline-drift-mitotic_2021-01-29.jpk-force",
    "fmt-jpk-fd_single_tilted-baseline-shift-adyp_2023-06-26.jpk-force",
    "fmt-jpk-fd_flipsign_2015.05.22-15.31.49.352.jpk-force",
    "fmt-jpk-fd_map2x2_extracted.jpk-force-map",
    "fmt-jpk-fd_single_bad_2017-01-16_1.jpk-force",
    "fmt-jpk-fd_single_bad_bead10_2017-04-27.jpk-force",
]


def make(case):
    if case.get("recorded"):
        from nanite import IndentationGroup
        return IndentationGroup("/repo/tests/data/" + case["recorded"])[
            case.get("enum", 0)]
    mk = case["model"]
    if case.get("lscale"):
        # the same experiment with all lengths multiplied by a factor
        # (stiff sample, stiff cantilever: indentations of a few nm) and a
        # short indentation part, so that with a lagged force maximum the
        # farthest point is not simply the force maximum
        ls = case["lscale"]
        assert mk == "hertz_para"
        tr = synth.truth_params(mk, contact_point=3e-7 * ls, baseline=2e-10,
                                E=MODEL_E[mk] * ls ** -1.5)
        clean = synth.make_arrays(mk, tr, n_app=case["n"], n_ret=case["n"],
                                  x_start=2e-6 * ls, depth=5e-7 * ls,
                                  k_spring=0.05 / ls)
        Fmax = float(np.max(clean["force"]) - 2e-10)
        return synth.make_curve(
            mk, tr, n_app=case["n"], n_ret=case["n"], x_start=2e-6 * ls,
            depth=5e-7 * ls, k_spring=0.05 / ls,
            noise=case["noise"] * Fmax, seed=4, lag=case["lag"],
            innate_tip=False)
    tr = synth.truth_params(mk, contact_point=3e-7, baseline=2e-10,
                            **{("E_S" if mk.startswith("power") else "E"):
                               MODEL_E[mk]})
    clean = synth.make_arrays(mk, tr, n_app=case["n"], n_ret=case["n"],
                              x_start=2e-6, depth=1e-6)
    Fmax = float(np.max(clean["force"]) - 2e-10)
    if case.get("offset"):
        # raw force offset that is not small compared with the peak force
        tr["baseline"] = 2e-10 + case["offset"] * Fmax
    return synth.make_curve(
        mk, tr, n_app=case["n"], n_ret=case["n"], x_start=2e-6, depth=1e-6,
        noise=case["noise"] * Fmax, seed=4,
        tilt=case["tilt"] * Fmax / 3e-6,
        drift=case["drift"] * Fmax / (2 * case["n"] * 1e-3),
        lag=case["lag"], quant=case["quant"],
        innate_tip=bool(case.get("innate", False)),
        drive=case.get("drive", "linear"))


def well_formed(idnt):
    """predicate on the *raw* curve, fixed up front"""
    seg = np.asarray(idnt["segment"])
    f = np.asarray(idnt["force"], dtype=float)
    h = np.asarray(idnt["height (measured)"], dtype=float)
    na, nr = int(np.sum(seg == 0)), int(np.sum(seg == 1))
    if na < 50 or nr < 50:
        return False, "fewer than 50 points in a segment"
    if np.sum(np.diff(seg.astype(int)) != 0) != 1:
        return False, "recorded segments do not switch once"
    turn = na - 1
    rng = h.max() - h.min()
    for part, sign in ((h[:na], -1), (h[na:], +1)):
        d = np.diff(part) * sign
        if np.sum(d < -0.02 * rng) > 0:
            return False, "height not monotone up to noise"
    if abs(int(np.argmax(f)) - turn) > 0.05 * f.size:
        return False, "force maximum far from the piezo turning point"
    # at least 10 % baseline: force below 5 % of its range
    base = f[:na] - np.median(f[:max(5, na // 10)])
    thresh = 0.05 * (f.max() - np.median(f[:max(5, na // 10)]))
    first = np.argmax(base > thresh) if np.any(base > thresh) else na
    if first < 0.1 * na:
        return False, "less than 10 % baseline"
    return True, ""


def ulp(x):
    return np.spacing(np.max(np.abs(x)))


def snapshot(idnt):
    return {c: np.array(idnt[c], copy=True) for c in idnt.columns}


def ref_turning_point(tip, force, idp):
    """independent implementation of the documented 'farthest point in
    normalised coordinates' rule"""
    x = np.array(tip, dtype=float) - tip[idp]
    if x.min() != 0:
        x = x / x.min()
    x = np.where(x < 0, 0.0, x)
    y = np.array(force, dtype=float) - np.mean(force[:idp])
    y = y / y.max()
    y = np.where(y < np.std(y[:idp]), 0.0, y)
    return int(np.argmax(x * x + y * y))


def case_fn(case):
    from nanite import poc, preproc
    out = []
    idnt = make(case)
    ok, why = well_formed(idnt)
    if not ok:
        return out, ("not-well-formed", why)
    n0 = len(idnt)
    raw_cols = set(idnt.columns)
    nchecks = 0

    def viol(clause, wit, detail):
        out.append(V(PROP, clause, site=wit.split(":")[0], witness=wit,
                     detail=detail, case=case, kind="grid"))

    def apply(steps, options=None, ret_details=False):
        return idnt.apply_preprocessing(list(steps), options or {},
                                        ret_details=ret_details)

    def common(step, before, after, owned, created=()):
        """length, column set and un-owned columns"""
        if len(idnt) != n0 or any(len(v) != n0 for v in after.values()):
            viol("length", step, "number of points changed")
        if set(after) != set(before) | set(created):
            viol("foreign-column", step + ":columns", f"column set changed: "
                 f"{sorted(set(after) ^ set(before))}")
        for c in before:
            if c not in owned and c in after and \
                    not np.array_equal(before[c], after[c], equal_nan=True):
                viol("foreign-column", f"{step}:{c}", f"step {step} changed "
                     f"column '{c}' which it does not own")

    only_smooth = bool(case.get("only_smooth"))
    # 1. tip-sample separation
    before = snapshot(idnt)
    apply(T)
    after = snapshot(idnt)
    k = idnt.metadata["spring constant"]
    common("compute_tip_position", before, after, {"tip position"},
           created={"tip position"})
    if "tip position" not in idnt.columns_innate:
        exp = before["height (measured)"] + before["force"] / k
        nchecks += 1
        if not np.array_equal(after["tip position"], exp):
            viol("tip-separation", "compute_tip_position", "tip position != "
                 "height (measured) + force / spring constant: max |d| = "
                 f"{np.max(np.abs(after['tip position'] - exp)):.3e}")
    if only_smooth:
        return _smooth_part(case, idnt, out, viol, common, apply, nchecks)
    # 1b. the same step when the heights were smoothed before it
    if "tip position" not in idnt.columns_innate:
        try:
            apply(["smooth_height"])
            before = snapshot(idnt)
            apply(["smooth_height", "compute_tip_position"])
            after = snapshot(idnt)
            common("compute_tip_position:after-smooth", before, after,
                   {"tip position"}, created={"tip position"})
            exp = before["height (measured)"] + before["force"] / k
            nchecks += 1
            if not np.array_equal(after["tip position"], exp):
                viol("tip-separation", "compute_tip_position:after-smooth",
                     "tip position != height (measured) + force / k when "
                     "smooth_height ran first")
        except BaseException as e:
            if isinstance(e, (KeyboardInterrupt, SystemExit, MemoryError)):
                raise
            viol("step-raises", "compute_tip_position:after-smooth", repr(e))
        apply(T)
        after = snapshot(idnt)
    # 2. force offset
    before = after
    apply(T + ["correct_force_offset"])
    after = snapshot(idnt)
    common("correct_force_offset", before, after, {"force"})
    d = after["force"] - before["force"]
    nchecks += 1
    if not d.max() - d.min() <= 4 * ulp(before["force"]):
        viol("force-offset-constant", "correct_force_offset",
             f"force changed by a non-constant: spread {d.max() - d.min():.3e}")
    idp = poc.compute_poc(np.array(before["force"], copy=True),
                          "deviation_from_baseline")
    if idp:
        m = abs(np.mean(after["force"][:idp]))
        if not m <= 8 * ulp(before["force"]):
            viol("force-offset-mean", "correct_force_offset", "mean "
                 f"pre-contact force is {m:.3e} after the correction "
                 f"(estimated contact index {idp})")
    # 3. tip offset, every method
    for meth in [p.identifier for p in poc.POC_METHODS]:
        apply(T)
        before = snapshot(idnt)
        opts = {"correct_tip_offset": {"method": meth}}
        try:
            apply(T + ["correct_tip_offset"], opts, ret_details=True)
        except BaseException as e:
            if isinstance(e, (KeyboardInterrupt, SystemExit, MemoryError)):
                raise
            viol("step-raises", f"correct_tip_offset:{meth}", repr(e))
            continue
        after = snapshot(idnt)
        common(f"correct_tip_offset:{meth}", before, after, {"tip position"})
        d = after["tip position"] - before["tip position"]
        nchecks += 1
        if not d.max() - d.min() <= 4 * ulp(before["tip position"]):
            viol("tip-offset-constant", f"correct_tip_offset:{meth}",
                 f"tip position changed by a non-constant: spread "
                 f"{d.max() - d.min():.3e}")
        idx = poc.compute_poc(np.array(before["force"], copy=True), meth)
        if not (0 <= idx < n0) or after["tip position"][idx] != 0:
            viol("tip-offset-zero", f"correct_tip_offset:{meth}",
                 f"tip position at the estimated contact index {idx} is "
                 f"{after['tip position'][idx] if 0 <= idx < n0 else None!r}"
                 ", not 0")
    # 4. slope correction: 3 regions x 2 strategies
    P = T + ["correct_tip_offset"]
    for region, strat in itertools.product(("baseline", "approach", "all"),
                                           ("shift", "drift")):
        apply(P)
        before = snapshot(idnt)
        opts = {"correct_force_slope": {"region": region,
                                        "strategy": strat}}
        name = f"correct_force_slope:{region}:{strat}"
        try:
            apply(P + ["correct_force_slope"], opts)
        except BaseException as e:
            if isinstance(e, (KeyboardInterrupt, SystemExit, MemoryError)):
                raise
            viol("step-raises", name, repr(e))
            continue
        after = snapshot(idnt)
        common(name, before, after, {"force"})
        f0, f1 = before["force"], after["force"]
        tp = before["tip position"]
        absc = tp if strat == "shift" else before["time"]
        idp = max(2, int(np.argmin(np.abs(tp))))
        if region == "baseline":
            end = idp
        elif region == "approach":
            end = max(2, ref_turning_point(tp, f0, idp))
        else:
            end = n0
        nchecks += 1
        if not np.array_equal(f0[end:], f1[end:]):
            ch = np.flatnonzero(f0 != f1)
            viol("slope-outside", name, f"samples outside the selected "
                 f"region changed (region ends at {end}, changed indices "
                 f"{ch.min()}..{ch.max()})")
        A = np.vstack([absc[:idp], np.ones(idp)]).T
        s0, c0 = np.linalg.lstsq(A, f0[:idp], rcond=None)[0]
        s1 = np.linalg.lstsq(A, f1[:idp], rcond=None)[0][0]
        span = abs(absc[idp - 1] - absc[0]) + 1e-300
        frange = np.max(np.abs(f0)) + 1e-300
        if not abs(s1) <= 1e-6 * abs(s0) + 1e-9 * frange / span:
            viol("slope-trend", name, f"baseline slope after correction "
                 f"{s1:.3e} (before {s0:.3e})")
        corr = f0 - f1
        if end < n0:
            jump = abs(corr[end - 1])
            step = abs(s0) * abs(absc[end] - absc[end - 1]) \
                if end < n0 else 0
            if not jump <= step + 1e-9 * frange:
                viol("slope-jump", name, f"jump of {jump:.3e} N at the end "
                     f"of the corrected region (allowed {step:.3e})")
        # what is subtracted is the fitted line (up to a constant)
        lin = s0 * (absc[:end] - absc[min(end, n0) - 1 if end < n0
                                      else idp])
        dev = np.max(np.abs((corr[:end] - corr[:end].mean())
                            - (lin - lin.mean())))
        if not dev <= 1e-6 * abs(s0) * span + 1e-9 * frange:
            viol("slope-trend", name + ":line", "the subtracted correction "
                 f"is not the fitted baseline line (max dev {dev:.3e})")
    # 4b. force offset *after* the slope correction, in one pipeline: the
    # offset is the mean pre-contact force of what the earlier steps left
    for region, strat in itertools.product(("baseline", "approach", "all"),
                                           ("shift", "drift")):
        opts = {"correct_force_slope": {"region": region,
                                        "strategy": strat}}
        name = f"correct_force_offset:after-slope:{region}:{strat}"
        try:
            apply(P + ["correct_force_slope"], opts)
            before = snapshot(idnt)
            apply(P + ["correct_force_slope", "correct_force_offset"], opts)
        except BaseException as e:
            if isinstance(e, (KeyboardInterrupt, SystemExit, MemoryError)):
                raise
            viol("step-raises", name, repr(e))
            continue
        after = snapshot(idnt)
        nchecks += 1
        idp = poc.compute_poc(np.array(before["force"], copy=True),
                              "deviation_from_baseline")
        if idp:
            exp = before["force"] - np.mean(before["force"][:idp])
            if not np.max(np.abs(after["force"] - exp)) <= \
                    8 * ulp(before["force"]):
                viol("force-offset-mean", name, "force offset after the "
                     "slope correction: the force is not (force before the "
                     "step) minus its mean over the pre-contact part "
                     f"[0, {idp}) (max dev "
                     f"{np.max(np.abs(after['force'] - exp)):.3e}, mean "
                     f"pre-contact force now "
                     f"{np.mean(after['force'][:idp]):.3e})")
    # 5. segment discovery
    apply(T)
    before = snapshot(idnt)
    apply(T + ["correct_split_approach_retract"])
    after = snapshot(idnt)
    common("correct_split_approach_retract", before, after, {"segment"})
    s = after["segment"].astype(int)
    sw = np.flatnonzero(np.diff(s) != 0)
    nchecks += 1
    if len(sw) != 1 or s[0] != 0 or s[-1] != 1:
        viol("split-single-switch", "correct_split_approach_retract",
             f"{len(sw)} approach/retract switches")
    else:
        idturn = int(sw[0]) + 1
        idp = poc.poc_deviation_from_baseline(
            np.array(before["force"], copy=True))
        ref = ref_turning_point(before["tip position"], before["force"],
                                int(idp))
        if idturn != ref:
            viol("split-location", "correct_split_approach_retract",
                 f"switch at {idturn}, farthest point at {ref}")
        if not case.get("recorded"):
            lo, hi = case["n"] - 2, case["n"] + case["lag"] + 1
            if not (lo <= idturn <= hi):
                viol("split-location", "correct_split_approach_retract:"
                     "truth", f"switch at {idturn}, piezo turns at "
                     f"{case['n'] - 1}, force maximum at "
                     f"{case['n'] - 1 + case['lag']}")
    return _smooth_part(case, idnt, out, viol, common, apply, nchecks)


def _smooth_part(case, idnt, out, viol, common, apply, nchecks):
    # 6. height smoothing (after segment discovery and on its own)
    for pipe in (T + ["correct_split_approach_retract", "smooth_height"],
                 T + ["smooth_height"]):
        apply(pipe[:-1])
        before = snapshot(idnt)
        try:
            apply(pipe)
        except BaseException as e:
            if isinstance(e, (KeyboardInterrupt, SystemExit, MemoryError)):
                raise
            viol("step-raises", "smooth_height", repr(e))
            continue
        after = snapshot(idnt)
        common("smooth_height", before, after, set(HEIGHTS))
        seg = after["segment"] == 0
        for col in HEIGHTS:
            if col not in after:
                continue
            nchecks += 1
            a = np.diff(after[col][seg])
            r = np.diff(after[col][~seg])
            if not (np.all(a < 0) and np.all(r > 0)):
                viol("smooth-monotonic", f"smooth_height:{col}",
                     f"'{col}' not strictly monotonic: approach "
                     f"{int(np.sum(a >= 0))} non-decreasing steps, retract "
                     f"{int(np.sum(r <= 0))} non-increasing steps")
    return out, ("checked", nchecks)


def cases(tier):
    cs = []
    models = list(MODEL_E)
    noises = [0.0, 0.01]
    tilts = [0.0, 0.02, -0.02]
    drifts = [0.0, 0.02]
    lags = [0, 5, 20]
    quants = [0.0, 3e-8]
    ns = [300]
    if tier == "quick":
        tilts = [0.0, 0.02]
        lags = [0, 20]
    for mk, noise, tilt, drift, lag, q, n in itertools.product(
            models, noises, tilts, drifts, lags, quants, ns):
        if tier == "quick" and mk not in ("hertz_para", "hertz_cone") \
                and (noise == 0.0 or drift or q):
            continue
        cs.append({"kind": "grid", "model": mk, "noise": noise, "tilt": tilt,
                   "drift": drift, "lag": lag, "quant": q, "n": n})
    # raw force offsets of +-3 peak forces (all-negative raw force included)
    for mk in ("hertz_para", "hertz_cone"):
        for offset in (3.0, -3.0):
            for lag in (0, 9, 20):
                for noise in (0.0, 0.01):
                    cs.append({"kind": "grid", "model": mk, "noise": noise,
                               "tilt": 0.0, "drift": 0.0, "lag": lag,
                               "quant": 0.0, "n": 300, "offset": offset})
    # all lengths scaled down: piezo travel of 15 nm, 3 nm and 0.5 nm
    # past the contact point
    for ls in (1.0, 0.03, 0.006, 0.001):
        for lag in (0, 20, 28):
            for noise in (0.0, 0.01):
                cs.append({"kind": "grid", "model": "hertz_para",
                           "noise": noise, "tilt": 0.0, "drift": 0.0,
                           "lag": lag, "quant": 0.0, "n": 300,
                           "lscale": ls})
    # curves that come with a tip position of their own (exported data)
    for mk in ("hertz_para", "hertz_cone"):
        for noise in (0.0, 0.01):
            for tilt in (0.0, 0.02):
                cs.append({"kind": "grid", "model": mk, "noise": noise,
                           "tilt": tilt, "drift": 0.0, "lag": 5,
                           "quant": 0.0, "n": 300, "innate": True})
    # densely sampled curves with a smooth z-drive and a lagged turning
    # point: the measured height reverses gently near the turning point
    for n in ((20000,) if tier == "quick" else (20000, 40000, 8000)):
        for lag in ((20,) if tier == "quick" else (8, 20, 30)):
            for noise in (0.0, 1e-5):
                cs.append({"kind": "grid", "model": "hertz_para",
                           "noise": noise, "tilt": 0.0, "drift": 0.0,
                           "lag": lag, "quant": 0.0, "n": n,
                           "drive": "cos", "only_smooth": True})
    if tier == "quick":
        # the witness of D22 (a sample-to-sample reversal that central
        # differences overlook)
        cs.append({"kind": "grid", "model": "hertz_para", "noise": 1e-5,
                   "tilt": 0.0, "drift": 0.0, "lag": 8, "quant": 0.0,
                   "n": 40000, "drive": "cos", "only_smooth": True})
    for f in RECORDED:
        if f.endswith("force-map"):
            for en in range(4):
                cs.append({"kind": "grid", "recorded": f, "enum": en})
        else:
            cs.append({"kind": "grid", "recorded": f})
    return cs


def replay(doc):
    return case_fn(doc["case"])[0]


def run(tier):
    rep = Report(PROP, tier, LEVEL)
    cs = cases(tier)
    cl = grid.run_cases(rep, __name__, "case_fn", cs, chunk=2,
                        label="curves")
    rep.set("outcome_classes", {str(k): v for k, v in sorted(
        cl.items(), key=str)})
    rep.set("relations_checked", sum(k[1] * v for k, v in cl.items()
                                     if k[0] == "checked"))
    rep.set("distinct_nontrivial",
            sum(v for k, v in cl.items() if k[0] == "checked"))
    rep.set("rule", "full product model x noise x tilt x drift x turning "
            "point lag x height quantisation, plus recorded curves; each "
            "curve goes through every step with every option value (6 "
            "contact-point methods, 3 regions x 2 strategies); non-trivial "
            "= the curve satisfies the well-formedness predicate and all "
            "relations were evaluated")
    rep.set("exhaustive", True)
    rep.sample(cs[0])
    rep.sample(cs[len(cs) // 2])
    rep.sample(cs[-1])
    rep.assumptions += [
        "'well-formed' is a predicate on the raw curve fixed up front: >= 50 "
        "points per segment, one recorded segment switch, height monotone "
        "up to noise, force maximum within 5 % of the piezo turning sample, "
        ">= 10 % baseline",
        "constant-shift spreads are allowed 4 ulp of the column magnitude",
    ]
    return rep
