"""C02 - shipped models evaluate their published contact-mechanics
formulas.  Exhaustive grid over models x parameter box x indentation
arrays against an independent scalar reference written from the
literature; exact baseline out of contact; truncated sphere series against
the exact (parametric) Sneddon solution; docstring constants."""
import math
import re

import numpy as np

from .. import grid, synth
from ..core import Report, V

PROP = "C02"
LEVEL = "exploration"


# -------------------------------------------- literature reference (scalar)

def ref_force(model, d, p):
    """force for indentation depth d > 0 (scalar `math` arithmetic)"""
    if model == "hertz_para":
        return 4 / 3 * p["E"] / (1 - p["nu"] ** 2) * math.sqrt(p["R"]) \
            * d ** 1.5
    if model == "hertz_cone":
        return 2 * math.tan(math.radians(p["alpha"])) / math.pi \
            * p["E"] / (1 - p["nu"] ** 2) * d ** 2
    if model == "hertz_pyr3s":
        # Bilodeau 1992: F = 0.8887 tan(alpha) E/(1-nu^2) delta^2
        return 0.8887 * math.tan(math.radians(p["alpha"])) \
            * p["E"] / (1 - p["nu"] ** 2) * d ** 2
    if model == "sneddon_spher_approx":
        r = d / p["R"]
        series = (1 - r / 10 - r ** 2 / 840 + 11 * r ** 3 / 15120
                  + 1357 * r ** 4 / 6652800)
        return 4 / 3 * p["E"] / (1 - p["nu"] ** 2) * math.sqrt(p["R"]) \
            * d ** 1.5 * series
    if model == "power_layer_clifford_2009":
        P, n, m, BS, BL = 2.25, 1.5, 2 / 3, 0.22, 1.92
        a = math.sqrt(p["R"] * d)
        xi = a / p["t"] * (p["E_L"] / p["E_S"]) ** m \
            * (1 - BS * p["nu_S"] ** 2) / (1 - BL * p["nu_L"] ** 2)
        Estar = p["E_L"] + (p["E_S"] - p["E_L"]) * (P * xi ** n) \
            / (1 + P * xi ** n)
        return 4 / 3 * Estar * math.sqrt(p["R"]) * d ** 1.5
    raise RuntimeError("harness: no reference for " + model)


def ref_force_np(model, d, p):
    """the same literature formulas for an array of depths (d <= 0 gives
    0); used to *generate* curves independently of nanite (C01)"""
    d = np.asarray(d, dtype=float)
    dd = np.where(d > 0, d, 0.0)
    if model == "hertz_para":
        F = 4 / 3 * p["E"] / (1 - p["nu"] ** 2) * np.sqrt(p["R"]) \
            * dd ** 1.5
    elif model == "hertz_cone":
        F = 2 * np.tan(np.radians(p["alpha"])) / np.pi \
            * p["E"] / (1 - p["nu"] ** 2) * dd ** 2
    elif model == "hertz_pyr3s":
        F = 0.8887 * np.tan(np.radians(p["alpha"])) \
            * p["E"] / (1 - p["nu"] ** 2) * dd ** 2
    elif model == "sneddon_spher_approx":
        r = dd / p["R"]
        F = 4 / 3 * p["E"] / (1 - p["nu"] ** 2) * np.sqrt(p["R"]) \
            * dd ** 1.5 * (1 - r / 10 - r ** 2 / 840 + 11 * r ** 3 / 15120
                           + 1357 * r ** 4 / 6652800)
    elif model == "power_layer_clifford_2009":
        a = np.sqrt(p["R"] * dd)
        xi = a / p["t"] * (p["E_L"] / p["E_S"]) ** (2 / 3) \
            * (1 - 0.22 * p["nu_S"] ** 2) / (1 - 1.92 * p["nu_L"] ** 2)
        q = 2.25 * xi ** 1.5
        F = 4 / 3 * (p["E_L"] + (p["E_S"] - p["E_L"]) * q / (1 + q)) \
            * np.sqrt(p["R"]) * dd ** 1.5
    else:
        raise RuntimeError("harness: no reference for " + model)
    return np.where(d > 0, F, 0.0)


def sneddon_exact(a, E, R, nu):
    """exact Sneddon sphere, parametric in the contact radius a"""
    L = math.log((R + a) / (R - a))
    delta = a / 2 * L
    F = E / (1 - nu ** 2) * ((R * R + a * a) / 2 * L - a * R)
    return delta, F


PARAM_GRID = {
    "hertz_para": {"E": [30.0, 300.0, 3e3, 3e4, 3e5],
                   "R": [1e-6, 10e-6, 40e-6], "nu": [0.0, 0.3, 0.5]},
    "hertz_cone": {"E": [30.0, 300.0, 3e3, 3e4, 3e5],
                   "alpha": [0.5, 25.0, 60.0, 89.0], "nu": [0.0, 0.3, 0.5]},
    "hertz_pyr3s": {"E": [30.0, 300.0, 3e3, 3e4, 3e5],
                    "alpha": [0.5, 5.0, 15.0, 30.0], "nu": [0.0, 0.3, 0.5]},
    "sneddon_spher_approx": {"E": [30.0, 300.0, 3e3, 3e4, 3e5],
                             "R": [1e-6, 10e-6, 40e-6],
                             "nu": [0.0, 0.3, 0.5]},
    "power_layer_clifford_2009": {
        "E_S": [300.0, 3e3, 3e5], "E_L": [1.0, 20.0, 1000.0],
        "R": [1e-6, 10e-6], "nu_S": [0.0, 0.3, 0.5],
        "nu_L": [0.0, 0.3, 0.5], "t": [1e-8, 1e-7, 1e-6]},
}
CPS = [0.0, -3e-7, 5e-7]
BASELINES = [0.0, 2e-10, -1e-10]
EXCLUSIONS = ["E_S = 0 (Clifford ratio E_L/E_S undefined)",
              "R = 0 (delta/R undefined)", "alpha = 90 deg (tan undefined)"]


def arrays(cp, R):
    """indentation arrays straddling the contact point"""
    fine = cp - np.linspace(-2e-7, 1e-6, 57)       # descending
    ulp = np.array([cp, np.nextafter(cp, np.inf), np.nextafter(cp, -np.inf),
                    np.nextafter(np.nextafter(cp, -np.inf), -np.inf),
                    cp + 1e-9, cp - 1e-9])
    deep = cp - np.linspace(0, R, 25)               # depths up to R
    out = {
        "fine-descending": fine,
        "fine-ascending": fine[::-1].copy(),
        "ulp-neighbours": ulp,
        "deep": deep,
        "unsorted": np.random.RandomState(3).permutation(fine),
        # recorded abscissae are noisy: clearly oriented, locally unordered
        "noisy-ascending": fine[::-1] + np.random.RandomState(4).normal(
            0, 3e-8, fine.size),
        "noisy-descending": fine + np.random.RandomState(5).normal(
            0, 3e-8, fine.size),
        "length-1-contact": np.array([cp - 3e-7]),
        "length-1-free": np.array([cp + 3e-7]),
        "empty": np.array([], dtype=float),
    }
    return out


def ulp(x):
    return np.spacing(abs(x)) if x != 0 else 5e-324


def wrap_clashing_model(md, stage):
    """Somebody develops a model of his own starting from a copy of a
    shipped model file: same function name, another formula, own key. It is
    wrapped / registered / registered and removed again *after* the shipped
    models were set up."""
    import inspect
    import types
    from nanite import model as nmodel
    from nanite.model import core as mcore
    src = md.module
    mod = types.ModuleType("verif_clash_" + src.model_key)
    for att in ("get_parameter_defaults", "parameter_keys",
                "parameter_names", "parameter_units", "model_doc",
                "valid_axes_x", "valid_axes_y"):
        setattr(mod, att, getattr(src, att))
    mod.model_key = "verif_clash"
    mod.model_name = "clashing " + src.model_name
    name = src.model_func.__name__
    ns = {"np": np}
    exec(f"def {name}{inspect.signature(src.model_func)}:\n"
         f"    return np.zeros_like(np.asarray(delta, float)) + 7.0\n", ns)
    mod.model_func = ns[name]
    if stage == "clash-wrapped":
        mcore.NaniteFitModel(mod)
    else:
        nmodel.register_model(mod)
        if stage == "clash-deregistered":
            nmodel.deregister_model(nmodel.models_available["verif_clash"])


def case_fn(case):
    from nanite import model as nmodel
    mk = case["model"]
    md = nmodel.models_available[mk]
    if case.get("stage"):
        wrap_clashing_model(md, case["stage"])
    fn = md.module.model_func
    p = dict(case["params"])
    cp, b = case["cp"], case["baseline"]
    R = p.get("R", 1e-6)
    out = []
    n_contact = 0

    def viol(clause, wit, detail):
        site = mk + (":" + case["stage"] if case.get("stage") else "")
        out.append(V(PROP, clause, site=site, witness=wit, detail=detail,
                     case=case, kind="grid"))
    P = md.get_parameter_defaults()
    for k_, v_ in dict(p, contact_point=cp, baseline=b).items():
        if not P[k_].expr:
            P[k_].set(value=v_, min=-np.inf, max=np.inf)
    arrs = arrays(cp, R)
    # same length and end points as "fine-descending", other interior
    fd = arrs["fine-descending"]
    u = np.linspace(0, 1, fd.size) ** 2.2
    arrs = dict(arrs)
    arrs["fine-descending-nonuniform"] = fd[0] + u * (fd[-1] - fd[0])
    order = ["fine-descending", "fine-descending-nonuniform"] + \
        [k_ for k_ in arrs if not k_.startswith("fine-descending")]
    for aname in order:
        x = arrs[aname]
        x0 = x.copy()
        F = fn(x, contact_point=cp, baseline=b, **p)
        if x.size:
            Fw = md.model(P, x)
            if not np.array_equal(Fw, F):
                viol("formula", aname + ":wrapper", "the registered model "
                     "wrapper does not return the model function's values "
                     f"(max |d| = {np.max(np.abs(Fw - F)):.3e})")
        if not np.array_equal(x, x0):
            viol("input-mutated", aname, "indentation array modified")
        if np.shape(F) != x.shape:
            viol("formula", aname, f"output shape {np.shape(F)}")
            continue
        for xi, Fi in zip(x, F):
            d = cp - xi
            if d <= 0:
                if Fi != b:
                    viol("baseline-exact", aname, f"delta={xi!r}, cp={cp!r}:"
                         f" force {Fi!r} != baseline {b!r} out of contact")
            else:
                n_contact += 1
                ref = ref_force(mk, float(d), p)
                tol = 1e-12 * abs(ref) + 4 * ulp(abs(b) + abs(ref))
                if not abs((Fi - b) - ref) <= tol:
                    viol("formula", aname, f"depth {d!r}: F-b = "
                         f"{Fi - b!r}, literature formula {ref!r} "
                         f"(rel. dev. {abs((Fi - b) - ref) / abs(ref):.3e})")
    return out, ("cell", n_contact > 0)


def sneddon_fn(case):
    from nanite import model as nmodel
    fn = nmodel.models_available["sneddon_spher_approx"].module.model_func
    E, R, nu = case["E"], case["R"], case["nu"]
    out = []
    # contact radii such that depths cover (0, R]
    amax = None
    lo, hi = 0.0, R * (1 - 1e-12)
    for _ in range(200):          # bisection for delta(a) = R
        mid = (lo + hi) / 2
        if sneddon_exact(mid, E, R, nu)[0] < R:
            lo = mid
        else:
            hi = mid
    amax = lo
    a = np.linspace(amax / 400, amax, 400)
    exact = np.array([sneddon_exact(ai, E, R, nu) for ai in a])
    delta, Fex = exact[:, 0], exact[:, 1]
    F = fn(-delta, E=E, R=R, nu=nu, contact_point=0.0, baseline=0.0)
    Fmax = Fex.max()
    dev = np.max(np.abs(F - Fex)) / Fmax
    if not dev <= 1e-4:
        out.append(V(PROP, "sneddon-exact", site="sneddon_spher_approx",
                     witness=f"R={R}", detail=f"max |F_series - F_exact| = "
                     f"{dev:.3e} x F_max for depths up to R (documented "
                     "bound 1e-4)", case=case, kind="sneddon"))
    # the series must also be *needed*: plain Hertz is far off at delta = R
    return out, ("sneddon", bool(dev > 1e-6))


def doc_constants():
    """numeric constants in the model_doc math blocks vs the reference"""
    from nanite import model as nmodel
    out = []
    checks = {
        "hertz_para": [r"\\frac\{4\}\{3\}", r"\\delta\^\{3/2\}"],
        "hertz_cone": [r"\\frac\{2\\tan\\alpha\}\{\\pi\}", r"\\delta\^2"],
        "hertz_pyr3s": [r"0\.8887\s*\\tan\\alpha", r"\\delta\^2"],
        "sneddon_spher_approx": [
            r"\\frac\{1\}\{10\}", r"\\frac\{1\}\{840\}",
            r"\\frac\{11\}\{15120\}", r"\\frac\{1357\}\{6652800\}",
            r"\\frac\{4\}\{3\}"],
        "power_layer_clifford_2009": [
            r"P=2\.25", r"n=1\.5", r"m=2/3", r"B_\\mathrm\{S\}=0\.22",
            r"B_\\mathrm\{L\}=1\.92"],
    }
    n = 0
    for mk, pats in checks.items():
        doc = nmodel.models_available[mk].model_doc or ""
        for pat in pats:
            n += 1
            if not re.search(pat, doc):
                out.append(V(PROP, "doc-constant", site=mk, witness=pat,
                             detail=f"the documented formula of {mk} does "
                             f"not contain {pat!r} (the code and the "
                             "literature use this constant)",
                             case={"kind": "doc", "model": mk,
                                   "pattern": pat}, kind="doc"))
    return out, n


def all_cases(tier):
    cases = []
    cps, bls = list(CPS), list(BASELINES)
    pg = {k: {a: list(b) for a, b in v.items()} for k, v in
          PARAM_GRID.items()}
    if tier == "thorough":
        cps += [1e-6, -1e-6]
        bls += [1e-9]
        for mk in pg:
            for a in pg[mk]:
                if a in ("E", "E_S"):
                    pg[mk][a] += [100.0, 1e4, 1e5]
                if a == "R":
                    pg[mk][a] += [3e-6, 20e-6]
    for mk, box in pg.items():
        cells = grid.product_cases(box)
        for params in cells:
            for cp in cps:
                for b in bls:
                    if tier == "quick" and mk == "power_layer_clifford_2009" \
                            and (params["nu_S"] == 0.3
                                 or params["nu_L"] == 0.3) \
                            and not (params["nu_S"] == params["nu_L"]):
                        continue
                    cases.append({"kind": "grid", "model": mk,
                                  "params": params, "cp": cp, "baseline": b})
        # the shipped formulas after a user model with a clashing function
        # name was set up in the same process
        for stage in ("clash-wrapped", "clash-registered",
                      "clash-deregistered"):
            cases.append({"kind": "grid", "model": mk, "params": cells[-1],
                          "cp": cps[1], "baseline": bls[1], "stage": stage})
    return cases


def replay(doc):
    k = doc.get("kind")
    if k == "grid":
        return case_fn(doc["case"])[0]
    if k == "sneddon":
        return sneddon_fn(doc["case"])[0]
    return [v for v in doc_constants()[0]
            if v["witness"] == doc["witness"]]


def run(tier):
    rep = Report(PROP, tier, LEVEL)
    cases = all_cases(tier)
    cl = grid.run_cases(rep, __name__, "case_fn", cases, chunk=40,
                        label="grid_cells")
    sn = grid.product_cases({"E": [30.0, 3e3, 3e5],
                             "R": [1e-6, 10e-6, 40e-6],
                             "nu": [0.0, 0.3, 0.5]}, kind="sneddon")
    cl2 = grid.run_cases(rep, __name__, "sneddon_fn", sn, chunk=4,
                         label="sneddon_cells")
    # harness self-check: array and scalar references agree
    for mk, box in PARAM_GRID.items():
        pp = {k: v[-1] for k, v in box.items()}
        dd = np.array([0.0, 1e-9, 3e-7, 1e-6])
        a = ref_force_np(mk, dd, pp)
        b = [ref_force(mk, float(x), pp) if x > 0 else 0.0 for x in dd]
        if not np.allclose(a, b, rtol=1e-13, atol=0):
            rep.harness(f"reference implementations disagree for {mk}")
    vs, ndoc = doc_constants()
    rep.extend(vs)
    rep.add("evaluations", ndoc)
    rep.set("doc_constants_checked", ndoc)
    rep.set("distinct_nontrivial", sum(v for k, v in cl.items() if k[1])
            + sum(v for k, v in cl2.items() if k[1]))
    rep.set("rule", "full cartesian product of the parameter box x contact "
            "point x baseline per model, 8 indentation arrays each; "
            "non-trivial = the cell has points in contact (force differs "
            "from baseline) / the series correction exceeds 1e-6 F_max")
    rep.set("exhaustive", True)
    rep.set("axes", {"params": PARAM_GRID, "contact_point": CPS,
                     "baseline": BASELINES,
                     "arrays": list(arrays(0.0, 1e-6))})
    rep.set("exclusions", EXCLUSIONS)
    rep.sample(cases[0])
    rep.sample(cases[len(cases) // 2])
    rep.sample(sn[0])
    rep.assumptions += [
        "reference formulas are written from the cited literature in scalar "
        "math-module arithmetic; tolerance 1e-12 relative + 4 ulp(|b|+|F|)",
        "the continuum claim is decided on the stated grid only",
    ]
    return rep
