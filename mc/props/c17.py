"""C17 - rating features are well-defined, bounded and independent of
force units.  Exhaustive grid over fitted curve states x feature subsets x
common force scale x retract perturbation, plus every unfitted /
settings-edited / unsuccessful state."""
import itertools

import numpy as np

from .. import canon as cn
from .. import grid, synth
from ..core import Report, V

PROP = "C17"
LEVEL = "exploration"

MODEL_E = {"hertz_para": 3000.0, "hertz_cone": 2.5e4,
           "sneddon_spher_approx": 3000.0}
FRACTION = ["feat_con_apr_flatness", "feat_con_apr_size"]
MAGNITUDE = ["feat_con_apr_sum", "feat_con_bln_slope",
             "feat_con_bln_variation", "feat_con_cp_magnitude",
             "feat_con_idt_maxima_75perc", "feat_con_idt_monotony",
             "feat_con_idt_sum", "feat_con_idt_sum_75perc",
             "feat_con_idt_spike_area"]
SCALES = [2.0 ** 20, 2.0 ** -20, 2.0, 1e3, 0.37]
P1 = ["compute_tip_position", "correct_force_offset", "correct_tip_offset"]
RECORDED = [
    "fmt-jpk-fd_spot3-0192.jpk-force",
    "fmt-jpk-fd_single_tilted-baseline-drift-mitotic_2021-01-29.jpk-force",
    "fmt-jpk-fd_single_bad_2017-01-16_1.jpk-force",
    "fmt-jpk-fd_single_bad_2017-01-16_3.jpk-force",
    "fmt-jpk-fd_single_bad_GWAT_2017-10-17.jpk-force",
    "fmt-jpk-fd_single_bad_bead46_2017-04-20.jpk-force",
]


def build(case):
    """a curve in the requested state"""
    if case.get("recorded"):
        from nanite import IndentationGroup
        idnt = IndentationGroup("/repo/tests/data/" + case["recorded"])[0]
        idnt.apply_preprocessing(list(P1))
        mk = "sneddon_spher_approx"
    else:
        mk = case["model"]
        n = case["n"]
        pos = case["position"]
        depth, x_start = {"inside": (1e-6, 2e-6), "late": (3e-8, 3e-6),
                          "early": (2e-6, 1e-7),
                          "incontact": (1.5e-6, -2e-7)}[pos]
        # (contact point and baseline away from zero: a unit or sign slip
        # in a feature must not be hidden by special values)
        tr = synth.truth_params(mk, E=MODEL_E[mk], contact_point=2.5e-7,
                                baseline=3e-11)
        arr = synth.make_arrays(mk, tr, n_app=n, n_ret=max(50, n // 4),
                                x_start=x_start, depth=depth)
        f = arr["force"]
        Fmax = float(np.max(f)) or 1e-12
        rs = np.random.RandomState(11)
        if case["noise"]:
            f = f + rs.normal(0, case["noise"] * Fmax, f.size)
        if case["spikes"] == "ringing":
            # short ringing bursts in the indentation part: a one-sample
            # dip flanked by two larger one-sample overshoots
            ind = np.flatnonzero(arr["tip position"][:n] < 2.5e-7)
            if ind.size > 40:
                for q in range(1, 9):
                    j = ind[q * ind.size // 10]
                    f[j - 1] += 0.045 * Fmax
                    f[j] -= 0.03 * Fmax
                    f[j + 1] += 0.045 * Fmax
        elif case["spikes"] == "saturated":
            # saturated detector: the force does not rise any further once
            # the tip is in contact
            ind = np.flatnonzero(arr["tip position"][:n] < 2.5e-7)
            f[ind] = 3e-11 + 0.3 * Fmax
        elif case["spikes"]:
            ind = np.flatnonzero(arr["tip position"][:n] < 2.5e-7)
            if ind.size > 6:
                for j in ind[[ind.size // 4, ind.size // 2,
                              3 * ind.size // 4]]:
                    f[j] += 0.2 * Fmax
        arr["force"] = f
        arr["height (measured)"] = arr["tip position"] - f / 0.05
        from nanite.indent import Indentation
        idnt = Indentation(data=arr, metadata={
            "path": "/verif/scratch/synth.h5", "enum": 0,
            "spring constant": 0.05, "imaging mode": "force-distance",
            "point count": f.size})
    st = case["state"]
    if st == "fresh":
        return idnt
    if st == "preprocessed":
        if not case.get("recorded"):
            idnt.apply_preprocessing(["compute_tip_position"])
        return idnt
    kw = {"model_key": mk}
    if st == "unsuccessful":
        x = np.sort(np.asarray(idnt["tip position"])[
            np.asarray(idnt["segment"]) == 0])
        kw["range_x"] = [float(x[3]), float(x[4])]
    if st == "unsuccessful-relative":
        # the first (whole-range) pass succeeds, the last one has too few
        # points: success is False although fitted parameters exist
        kw["range_type"] = "relative cp"
        kw["range_x"] = [-1e-9, 1e-9]
    if st == "fitted-relative":
        # a successful fit on a proper part of the approach segment
        kw["range_type"] = "relative cp"
        kw["range_x"] = [-4e-7, 2e-7]
    if st == "fitted-interval":
        x = np.sort(np.asarray(idnt["tip position"])[
            np.asarray(idnt["segment"]) == 0])
        kw["range_x"] = [float(x[x.size // 8]), float(x[(6 * x.size) // 8])]
    idnt.fit_model(**kw)
    if st == "edited":
        idnt.fit_properties["weight_cp"] = 0
    return idnt


def all_names():
    from nanite.rate.features import IndentationFeatures as IF
    return IF.get_feature_names(which_type="all")


def subsets():
    names = all_names()
    subs = [("all", None)]
    for nm in names:
        subs.append(("all", [nm]))
    subs.append(("all", sorted([names[0], names[5], names[9]])))
    subs.append(("continuous", [names[12], names[3], names[7], names[0]]))
    subs.append(("binary", [names[2], names[0], names[6]]))
    subs.append(("continuous", None))
    subs.append(("binary", None))
    subs.append((["continuous", "binary"], None))
    subs.append((["binary", "continuous"], None))
    subs.append((["continuous", "binary"],
                 [names[12], names[1], names[3], names[0]]))
    subs.append((["continuous"], [names[9], names[4]]))
    return subs


def feats(idnt, which_type="all", names=None):
    from nanite.rate.features import IndentationFeatures as IF
    return IF.compute_features(idnt, which_type=which_type, names=names,
                               ret_names=True)


def _feats_or_exc(case):
    try:
        names, vals = None, None
        r = feats(build(case))
        vals, names = r[0], r[1]
        return [(n, float(v)) for n, v in zip(names, vals)]
    except BaseException as e:
        if isinstance(e, (KeyboardInterrupt, SystemExit, MemoryError)):
            raise
        return "raises " + type(e).__name__


def sequence_case(case):
    """features depend only on the curve: the features of curve B computed
    after those of curve A (same process, nothing restored in between) are
    those of B computed in a pristine process"""
    from .. import state
    out = []
    a, b = case["first"], case["second"]
    state.restore()
    ref = _feats_or_exc(b)
    state.restore()
    _feats_or_exc(a)
    got = _feats_or_exc(b)
    same = type(ref) is type(got) and (
        ref == got if isinstance(ref, str) else
        len(ref) == len(got) and all(
            n1 == n2 and (v1 == v2 or (v1 != v1 and v2 != v2))
            for (n1, v1), (n2, v2) in zip(ref, got)))
    if not same:
        what = got if isinstance(got, str) else "other values"
        out.append(V(PROP, "depends-on-history", site="sequence",
                     witness=f"{case['tag']}", detail="features of the "
                     f"second curve after those of the first: {what}; alone: "
                     f"{ref if isinstance(ref, str) else 'values'}",
                     case=case, kind="grid"))
    state.restore()
    return out, ("sequence", same)


def case_fn(case):
    from nanite.rate.features import IndentationFeatures as IF
    if case.get("kind") == "sequence":
        return sequence_case(case)
    out = []
    try:
        idnt = build(case)
    except BaseException as e:
        if isinstance(e, (KeyboardInterrupt, SystemExit, MemoryError)):
            raise
        return out, ("build-raises", type(e).__name__)
    st = case["state"]
    site = "fitted" if st.startswith("fitted") else "no-current-fit"
    nall = all_names()

    def viol(clause, wit, detail):
        out.append(V(PROP, clause, site=site, witness=wit, detail=detail,
                     case=case, kind="grid"))
    c0 = cn.indent_canon(idnt)
    try:
        base, bnames = feats(idnt)
    except BaseException as e:
        if isinstance(e, (KeyboardInterrupt, SystemExit, MemoryError)):
            raise
        clause = "feature-raises" if st.startswith("fitted") \
            else "unfitted-raises"
        viol(clause, type(e).__name__, f"compute_features raised {e!r}")
        return out, ("raises", st)
    if cn.indent_canon(idnt) != c0:
        viol("curve-changed", "all", "computing the features changed the "
             "curve")
    # the caller owns the returned name list: rearranging it must not
    # change what later requests return
    bnames_obj, bnames = bnames, list(bnames)
    try:
        for wt in ("all", "binary", "continuous"):
            v1, n1 = feats(idnt, wt)
            keep = list(n1)
            if isinstance(n1, list) and len(n1) > 1:
                n1.reverse()
                n1.pop()
            v2, n2 = feats(idnt, wt)
            if list(n2) != keep or not np.array_equal(v1, v2,
                                                      equal_nan=True):
                viol("order", f"{wt}:after-caller-edit", "after the caller "
                     "rearranged the name list returned by an earlier "
                     f"request, the same request returns names {list(n2)[:3]}"
                     f"... ({len(n2)} names, before: {len(keep)})")
                break
    except BaseException as e:
        if isinstance(e, (KeyboardInterrupt, SystemExit, MemoryError)):
            raise
        viol("feature-raises" if st.startswith("fitted")
             else "unfitted-raises", "after-caller-edit", repr(e))
    fitted_ok = bool(idnt.fit_properties.get("success", False))
    fmax_pos = False
    if "force" in idnt:
        ya = np.asarray(idnt["force"])[np.asarray(idnt["segment"]) == 0]
        fmax_pos = bool(np.max(ya) > 0)
    single = {}
    for nm, v in zip(bnames, base):
        single[nm] = v
        if not (np.isnan(v) or np.isfinite(v)):
            viol("not-finite", nm, f"{nm} = {v!r}")
        if nm.startswith("feat_bin_") and not (np.isnan(v) or v in (0, 1)):
            viol("binary-range", nm, f"{nm} = {v!r}")
        if nm in FRACTION and not (np.isnan(v) or 0 <= v <= 1):
            viol("fraction-range", nm, f"{nm} = {v!r} outside [0, 1]")
        if nm in MAGNITUDE and fmax_pos and not (np.isnan(v) or v >= 0):
            viol("magnitude-negative", nm, f"{nm} = {v!r}")
        if not fitted_ok and nm != "feat_bin_size" and not np.isnan(v):
            viol("unfitted-not-nan", nm, f"{nm} = {v!r} without a "
                 "successful current fit")
    if list(bnames) != sorted(nall):
        viol("order", "all", f"names {bnames}")
    # subsets: order and alignment
    nsub = 0
    for wt, names in subsets():
        req = None if names is None else list(names)
        try:
            s, sn = feats(idnt, which_type=wt, names=req)
        except BaseException as e:
            if isinstance(e, (KeyboardInterrupt, SystemExit, MemoryError)):
                raise
            viol("feature-raises" if st.startswith("fitted")
                 else "unfitted-raises",
                 f"{wt}:{names}", repr(e))
            continue
        nsub += 1
        wts = wt if isinstance(wt, list) else [wt]
        pool = [n for n in nall
                if "all" in wts
                or ("binary" in wts and n.startswith("feat_bin_"))
                or ("continuous" in wts and n.startswith("feat_con_"))]
        want = sorted(n for n in (names if names is not None else pool)
                      if n in pool)
        if list(sn) != want:
            viol("order", f"{wt}:{names}", f"returned names {list(sn)}, "
                 f"sorted requested names of that type {want}")
        elif len(s) != len(want) or any(
                not (s[i] == single[n] or (np.isnan(s[i])
                                           and np.isnan(single[n])))
                for i, n in enumerate(want)):
            viol("order", f"{wt}:{names}:alignment", "samples are not "
                 "aligned with the returned names")
    if not fitted_ok:
        return out, ("no-fit", st)
    # retract perturbation: features depend on the approach segment only
    seg = np.asarray(idnt["segment"])
    ret = seg == 1
    rs = np.random.RandomState(3)
    saved = {c: np.array(idnt[c], copy=True)
             for c in ("force", "fit", "fit residuals")}
    xcol = idnt.fit_properties.get("x_axis", "tip position")
    xsaved = np.array(idnt[xcol], copy=True)
    for c in saved:
        a = saved[c].copy()
        a[ret] = rs.normal(0, 1e-9, int(ret.sum()))
        idnt[c] = a
    xa = xsaved.copy()
    span = xa.max() - xa.min()
    xa[ret] = np.linspace(xa.min() - span, xa.max() + span, int(ret.sum()))
    idnt[xcol] = xa
    pert, _ = feats(idnt)
    idnt[xcol] = xsaved
    if not np.array_equal(pert, base, equal_nan=True):
        bad = [bnames[i] for i in range(len(base))
               if not (pert[i] == base[i]
                       or (np.isnan(pert[i]) and np.isnan(base[i])))]
        viol("retract-dependence", ",".join(bad), "features change when "
             f"only the retract segment is altered: {bad}")
    for c in saved:
        idnt[c] = saved[c]
    # common positive scale of force and fit
    ya = saved["force"][seg == 0]
    fa = saved["fit"][seg == 0]
    Fmax = np.max(np.abs(ya))
    rms = np.sqrt(np.nanmean((ya - fa) ** 2))
    nscale = 0
    for sc in SCALES:
        dyadic = np.log2(sc) == int(np.log2(sc))
        if not dyadic and not rms > 1e6 * np.spacing(Fmax):
            continue
        for c in saved:
            idnt[c] = saved[c] * sc
        try:
            sf, _ = feats(idnt)
        except BaseException as e:
            if isinstance(e, (KeyboardInterrupt, SystemExit, MemoryError)):
                raise
            viol("feature-raises", f"scale={sc}", repr(e))
            continue
        nscale += 1
        if np.any(np.isnan(sf) != np.isnan(base)):
            viol("scale-dependence", f"x{sc}:nan", "NaN pattern changes "
                 "under a common scale factor")
        elif dyadic:
            if not np.array_equal(sf, base, equal_nan=True):
                bad = [bnames[i] for i in range(len(base))
                       if not (sf[i] == base[i] or np.isnan(base[i]))]
                viol("scale-dependence", f"x{sc}", "features change under "
                     f"a power-of-two factor: {bad} ({sf.tolist()} vs "
                     f"{base.tolist()})")
        else:
            m = ~np.isnan(base)
            if not np.allclose(sf[m], base[m], rtol=1e-6, atol=1e-9):
                bad = [bnames[i] for i in np.flatnonzero(m)
                       if not np.isclose(sf[i], base[i], rtol=1e-6,
                                         atol=1e-9)]
                viol("scale-dependence", f"x{sc}", "features change under "
                     f"a common factor: {bad}")
    for c in saved:
        idnt[c] = saved[c]
    return out, ("fitted", nsub, nscale)


def cases(tier):
    cs = []
    ns = [100, 700, 3000]
    noises = [0.0, 0.01, 0.05]
    for mk, noise, spikes, n, pos in itertools.product(
            MODEL_E, noises, (0, 3), ns,
            ("inside", "late", "early", "incontact")):
        if tier == "quick" and (
                (mk == "sneddon_spher_approx" and (noise == 0.01 or spikes))
                or (n == 3000 and noise == 0.01)
                or (mk == "hertz_cone" and n == 3000 and spikes)):
            continue
        cs.append({"kind": "grid", "model": mk, "noise": noise,
                   "spikes": spikes, "n": n, "position": pos,
                   "state": "fitted"})
    for mk in MODEL_E:
        for noise in (0.0, 0.002):
            for n in (700, 3000):
                cs.append({"kind": "grid", "model": mk, "noise": noise,
                           "spikes": "ringing", "n": n, "position": "inside",
                           "state": "fitted"})
    for st in ("fresh", "preprocessed", "edited", "unsuccessful",
               "unsuccessful-relative"):
        for mk in MODEL_E:
            for n in (100, 700):
                cs.append({"kind": "grid", "model": mk, "noise": 0.01,
                           "spikes": 0, "n": n, "position": "inside",
                           "state": st})
    # successful fits on a proper part of the approach segment
    for st in ("fitted-relative", "fitted-interval"):
        for mk in MODEL_E:
            for n in (100, 700):
                for spikes in (0, 3):
                    for pos in ("inside", "incontact"):
                        cs.append({"kind": "grid", "model": mk,
                                   "noise": 0.01, "spikes": spikes, "n": n,
                                   "position": pos, "state": st})
    for f in RECORDED:
        for st in ("fitted", "fitted-relative", "fitted-interval",
                   "preprocessed", "edited", "unsuccessful",
                   "unsuccessful-relative"):
            cs.append({"kind": "grid", "recorded": f, "state": st})
    # a saturated detector (constant force in the indentation part)
    special = {}
    for mk in ("hertz_para", "hertz_cone"):
        for n in (700,):
            c = {"kind": "grid", "model": mk, "noise": 0.0,
                 "spikes": "saturated", "n": n, "position": "inside",
                 "state": "fitted"}
            cs.append(c)
            special["saturated:" + mk] = c
    # ordered pairs of curves whose features are computed one after the
    # other in one process
    base = {"kind": "grid", "model": "hertz_para", "spikes": 0, "n": 700,
            "position": "inside"}
    special["clean"] = dict(base, noise=0.0, state="fitted")
    special["noisy"] = dict(base, noise=0.05, state="fitted")
    special["spiky"] = dict(base, noise=0.01, spikes=3, state="fitted")
    special["short"] = dict(base, noise=0.01, n=100, state="fitted")
    special["unsuccessful"] = dict(base, noise=0.01, state="unsuccessful")
    special["fresh"] = dict(base, noise=0.01, state="fresh")
    special["recorded"] = {"kind": "grid", "recorded": RECORDED[0],
                           "state": "fitted"}
    for ta, ca in special.items():
        for tb, cb in special.items():
            cs.append({"kind": "sequence", "first": ca, "second": cb,
                       "tag": f"{ta}->{tb}"})
    return cs


def replay(doc):
    return case_fn(doc["case"])[0]


def run(tier):
    rep = Report(PROP, tier, LEVEL)
    cs = cases(tier)
    cl = grid.run_cases(rep, __name__, "case_fn", cs, chunk=3,
                        label="curve_states")
    rep.set("outcome_classes", {str(k): v for k, v in sorted(
        cl.items(), key=str)})
    rep.set("feature_subsets_per_state", len(subsets()))
    rep.set("distinct_nontrivial",
            sum(v for k, v in cl.items() if k[0] in ("fitted", "no-fit")))
    rep.set("rule", "full product model x noise x spikes x approach length "
            "x contact position (fitted), plus unfitted / edited / "
            "unsuccessful states and recorded good and bad curves; each "
            "state x 22 feature subsets x 5 scale factors x retract "
            "perturbation; non-trivial = features were computed")
    rep.set("exhaustive", True)
    rep.sample(cs[0])
    rep.sample(cs[len(cs) // 2])
    rep.sample(cs[-1])
    rep.assumptions += [
        "scaling is applied to the force and fit columns of the fitted "
        "state (not a refit of scaled data); bit-exact for powers of two, "
        "rtol 1e-6 otherwise and only where the residual RMS exceeds 1e6 "
        "ulp of F_max",
        "explicit names with which_type='all' are passed sorted (the "
        "documented behaviour keeps the caller's order there)",
    ]
    return rep
