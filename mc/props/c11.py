"""C11 - the geometrical correction factor rescales the modulus and
nothing else.  Exhaustive grid over power-law model x k x curve x segment
x range type x initial contact point; every cell is compared with the
k = 1 run of the same cell, and every optimisation pass is monitored."""
import math

import numpy as np

from .. import grid, ops, synth
from ..core import Report, V

PROP = "C11"
LEVEL = "exploration"

POWER = {"hertz_para": 1.5, "hertz_cone": 2.0, "hertz_pyr3s": 2.0}
KS = [0.1, 0.23, 1 / math.pi, 0.5, 0.6, 2.0]
CP_TRUE = 1.5e-7
DEPTH = 9e-7
MODES = ["abs-whole", "abs-interval", "relative", "plateau"]
CP0S = [1.5e-7, 2.1e-7, 0.0]


#: for the plateau search the data come from another model, so that the
#: apparent modulus varies with depth by several percent (on data of the
#: fitted model itself the E(depth) scan is flat and the plateau position
#: is decided by optimiser round-off, for every k)
PLATEAU_GEN = {"hertz_para": ("sneddon_spher_approx", {"R": 2e-6}),
               "hertz_cone": ("hertz_para", {}),
               "hertz_pyr3s": ("hertz_para", {})}


def make(mk, noisy, recorded=None, plateau=False):
    if recorded:
        from nanite import IndentationGroup
        idnt = IndentationGroup("/repo/tests/data/" + recorded)[0]
        idnt.apply_preprocessing(["compute_tip_position",
                                  "correct_force_offset",
                                  "correct_tip_offset"])
        return idnt
    E = {"hertz_para": 3000.0, "hertz_cone": 9000.0,
         "hertz_pyr3s": 40000.0}[mk]
    gen, extra = (PLATEAU_GEN[mk] if plateau else (mk, {}))
    if plateau:
        E = 3000.0
    tr = synth.truth_params(gen, E=E, contact_point=CP_TRUE, baseline=4e-11,
                            **extra)
    return synth.make_curve(gen, tr, n_app=160, n_ret=140, x_start=1.0e-6,
                            depth=DEPTH, noise=(2e-11 if noisy else 0.0),
                            seed=5)


def run_fit(mk, noisy, seg, mode, cp0, k, recorded=None, fixed=()):
    from nanite import model as nmodel
    idnt = make(mk, noisy, recorded, plateau=(mode == "plateau"))
    P = nmodel.models_available[mk].get_parameter_defaults()
    P["contact_point"].set(value=cp0)
    if not recorded:
        # start inside the convergence basin of *this* k (the modulus the
        # optimiser has to find is E k^-p): the property is about the
        # optimum, not about the optimiser's path from a far start
        Etrue = 3000.0 if mode == "plateau" else \
            {"hertz_para": 3000.0, "hertz_cone": 9000.0,
             "hertz_pyr3s": 40000.0}[mk]
        P["E"].set(value=1.2 * Etrue * k ** (-POWER[mk]))
        P["baseline"].set(value=2e-11)
    if mode == "plateau" and mk == "hertz_para":
        P["R"].set(value=2e-6)
    for name in fixed:
        P[name].set(vary=False)
    kw = dict(model_key=mk, params_initial=P, segment=seg, gcf_k=k,
              weight_cp=0)
    if mode == "abs-whole":
        kw.update(range_type="absolute", range_x=[0, 0])
    elif mode == "abs-interval":
        kw.update(range_type="absolute", range_x=[-5.5e-7, 5.5e-7])
    elif mode == "relative":
        kw.update(range_type="relative cp", range_x=[-6e-7, 3e-7])
    elif mode == "plateau":
        kw.update(range_type="absolute", range_x=[-6.5e-7, 6.5e-7],
                  optimal_fit_edelta=True, optimal_fit_num_samples=8)
    ops.install_counters()
    ops.Counters.passes = []
    try:
        idnt.fit_model(**kw)
        exc = None
    except BaseException as e:
        if isinstance(e, (KeyboardInterrupt, SystemExit, MemoryError)):
            raise
        exc = e
    passes, ops.Counters.passes = ops.Counters.passes, None
    return idnt, passes, exc


CP_FAR = 1.2e-5      # tip position not shifted to the contact point


def guessed_case(case):
    """no initial parameters are given: the library estimates the contact
    point from the data - in measured units, whatever k is"""
    from nanite import model as nmodel
    out = []
    mk, seg, k = case["model"], case["segment"], case["k"]

    def viol(clause, wit, detail):
        out.append(V(PROP, clause, site="guessed", witness=wit,
                     detail=detail, case=case, kind="grid"))
    E = {"hertz_para": 3000.0, "hertz_cone": 9000.0,
         "hertz_pyr3s": 40000.0}[mk]
    res = {}
    for kk in (1.0, k):
        tr = synth.truth_params(mk, E=E, contact_point=CP_FAR,
                                baseline=4e-11)
        idnt = synth.make_curve(mk, tr, n_app=160, n_ret=140, x_start=1.0e-6,
                                depth=DEPTH, noise=0.0, seed=5)
        ops.install_counters()
        ops.Counters.passes = []
        exc = None
        try:
            if case["entry"] == "fit_model":
                idnt.fit_model(model_key=mk, segment=seg, gcf_k=kk,
                               weight_cp=0)
                guess = idnt.fit_properties["params_initial"][
                    "contact_point"].value
            else:
                idnt.fit_properties["gcf_k"] = kk
                idnt.fit_properties["segment"] = seg
                guess = idnt.get_initial_fit_parameters(
                    model_key=mk)["contact_point"].value
        except BaseException as e:
            if isinstance(e, (KeyboardInterrupt, SystemExit, MemoryError)):
                raise
            exc, guess = e, None
        passes, ops.Counters.passes = ops.Counters.passes, None
        res[kk] = (idnt, guess, passes, exc)
    (i1, g1, p1, e1), (ik, gk, pk, ek) = res[1.0], res[k]
    if (e1 is None) != (ek is None):
        viol("k-invariance", f"k={k:.3g}:raises", f"k=1: {e1!r}, k={k}: "
             f"{ek!r}")
        return out, ("raises-differ",)
    if e1 is not None:
        return out, ("raises", type(e1).__name__)
    if gk != g1:
        viol("k-initial-cp", f"k={k:.3g}:guess", "the estimated initial "
             f"contact point is {gk!r} for k = {k}, {g1!r} for k = 1 (the "
             "estimate is made on the measured data, which do not depend "
             "on k)")
    for n, ps in enumerate(pk):
        if ps["cp0"] is None or not abs(ps["cp0"] - k * g1) <= \
                4 * np.spacing(abs(k * g1)):
            viol("k-initial-cp", f"k={k:.3g}:pass{n + 1}",
                 f"pass {n + 1} starts from contact point {ps['cp0']!r}, "
                 f"expected k x measured-units estimate = {k * g1!r}")
            break
    if case["entry"] != "fit_model":
        return out, ("guess-only",)
    f1, fk = i1.fit_properties, ik.fit_properties
    if f1.get("success") and not fk.get("success"):
        viol("k-invariance", f"k={k:.3g}:success", "fit with an estimated "
             "start succeeds for k = 1 only")
    elif f1.get("success") and case["compare"]:
        dcp = abs(fk["params_fitted"]["contact_point"].value
                  - f1["params_fitted"]["contact_point"].value) / DEPTH
        rE = fk["params_fitted"]["E"].value / (
            f1["params_fitted"]["E"].value * k ** (-POWER[mk]))
        if not dcp <= 1e-6 or not abs(rE - 1) <= 1e-5:
            viol("k-invariance", f"k={k:.3g}:guessed-start", "fit from the "
                 f"estimated start: |d cp|/depth = {dcp:.2e}, "
                 f"E_k / (E_1 k^-p) = {rE!r}")
    return out, ("guessed", bool(f1.get("success")), bool(fk.get("success")))


def limits_case(case):
    """the contact point carries finite limits (measured units, like its
    value): the fit is still equivalent to the k = 1 fit"""
    from nanite import model as nmodel
    out = []
    mk, seg, k, mode = case["model"], case["segment"], case["k"], \
        case["range"]
    p = POWER[mk]

    def viol(clause, wit, detail):
        out.append(V(PROP, clause, site="cp-limits:" + mode, witness=wit,
                     detail=detail, case=case, kind="grid"))
    E = {"hertz_para": 3000.0, "hertz_cone": 9000.0,
         "hertz_pyr3s": 40000.0}[mk]
    lo, hi = CP_FAR - case["halfwidth"], CP_FAR + case["halfwidth"]
    res = {}
    for kk in (1.0, k):
        tr = synth.truth_params(mk, E=E, contact_point=CP_FAR,
                                baseline=4e-11)
        idnt = synth.make_curve(mk, tr, n_app=160, n_ret=140, x_start=1.0e-6,
                                depth=DEPTH, noise=0.0, seed=5)
        P = nmodel.models_available[mk].get_parameter_defaults()
        P["contact_point"].set(value=CP_FAR + 3e-8, min=lo, max=hi)
        P["E"].set(value=1.2 * E * kk ** (-p))
        P["baseline"].set(value=2e-11)
        kw = dict(model_key=mk, params_initial=P, segment=seg, gcf_k=kk,
                  weight_cp=0)
        if mode == "whole":
            kw.update(range_type="absolute", range_x=[0, 0])
        else:
            kw.update(range_type="relative cp", range_x=[-6e-7, 3e-7])
        ops.install_counters()
        ops.Counters.passes = []
        exc = None
        try:
            idnt.fit_model(**kw)
        except BaseException as e:
            if isinstance(e, (KeyboardInterrupt, SystemExit, MemoryError)):
                raise
            exc = e
        passes, ops.Counters.passes = ops.Counters.passes, None
        res[kk] = (idnt, passes, exc)
    (i1, p1, e1), (ik, pk, ek) = res[1.0], res[k]
    if e1 is not None or ek is not None:
        if (e1 is None) != (ek is None):
            viol("k-invariance", f"k={k:.3g}:raises", f"k=1: {e1!r}, "
                 f"k={k}: {ek!r}")
        return out, ("raises",)
    f1, fk = i1.fit_properties, ik.fit_properties
    if not f1.get("success") or not fk.get("success"):
        if f1.get("success") != fk.get("success"):
            viol("k-invariance", f"k={k:.3g}:success", "success differs")
        return out, ("unsuccessful",)
    if pk and (pk[0]["cp0"] is None or not abs(
            pk[0]["cp0"] - k * (CP_FAR + 3e-8)) <= 4 * np.spacing(CP_FAR)):
        viol("k-initial-cp", f"k={k:.3g}:pass1", "the first pass starts "
             f"from contact point {pk[0]['cp0']!r}, expected k x the given "
             f"value = {k * (CP_FAR + 3e-8)!r} (limits [{lo}, {hi}] are in "
             "measured units like the value)")
    q1, qk = f1["params_fitted"], fk["params_fitted"]
    dcp = abs(qk["contact_point"].value - q1["contact_point"].value) / DEPTH
    rE = qk["E"].value / (q1["E"].value * k ** (-p))
    if not dcp <= 1e-7:
        viol("k-invariance", f"k={k:.3g}:contact_point", "contact point "
             f"{qk['contact_point'].value!r} vs k=1 "
             f"{q1['contact_point'].value!r} with limits [{lo}, {hi}]")
    if not abs(rE - 1) <= 1e-6:
        viol("k-scaling", f"k={k:.3g}", f"E_k / (E_1 k^-{p}) = {rE!r} "
             f"with contact-point limits [{lo}, {hi}]")
    for nm, q in (("k=1", q1), (f"k={k:.3g}", qk)):
        c = q["contact_point"]
        if not (lo <= c.value <= hi) or c.min != lo or c.max != hi:
            viol("k-invariance", f"{nm}:limits", "reported contact point "
                 f"{c.value!r} with limits [{c.min!r}, {c.max!r}], given "
                 f"[{lo}, {hi}]")
    c1 = np.asarray(i1["fit"], dtype=float)
    ck = np.asarray(ik["fit"], dtype=float)
    Fmax = np.nanmax(np.abs(np.asarray(ik["force"], dtype=float)))
    if np.any(np.isnan(c1) != np.isnan(ck)) or \
            not np.nanmax(np.abs(c1 - ck)) / Fmax <= 1e-6:
        viol("k-invariance", f"k={k:.3g}:fit", "fit curve differs from "
             "k = 1")
    return out, ("limits", len(pk))


def fewpoints_case(case):
    """a fit request whose range holds too few points (unsuccessful fit):
    the stored initial contact point stays what the caller gave, in
    measured units, for every k"""
    from nanite import model as nmodel
    out = []
    mk, k, mode = case["model"], case["k"], case["range"]

    def viol(clause, wit, detail):
        out.append(V(PROP, clause, site="few-points:" + mode, witness=wit,
                     detail=detail, case=case, kind="grid"))
    E = {"hertz_para": 3000.0, "hertz_cone": 9000.0,
         "hertz_pyr3s": 40000.0}[mk]
    tr = synth.truth_params(mk, E=E, contact_point=CP_FAR, baseline=4e-11)
    idnt = synth.make_curve(mk, tr, n_app=160, n_ret=140, x_start=1.0e-6,
                            depth=DEPTH, noise=0.0, seed=5)
    P = nmodel.models_available[mk].get_parameter_defaults()
    cp0 = CP_FAR + 3e-8
    P["contact_point"].set(value=cp0)
    P["E"].set(value=1.2 * E * k ** (-POWER[mk]))
    kw = dict(model_key=mk, params_initial=P, gcf_k=k, weight_cp=0)
    if mode == "absolute":
        kw.update(range_type="absolute", range_x=[0, 1e-6])   # off the data
    else:
        kw.update(range_type="relative cp", range_x=[-2e-10, 2e-10])
    try:
        idnt.fit_model(**kw)
    except BaseException as e:
        if isinstance(e, (KeyboardInterrupt, SystemExit, MemoryError)):
            raise
    fp = idnt.fit_properties
    first_success = bool(fp.get("success"))
    stored = fp["params_initial"]["contact_point"].value \
        if fp.get("params_initial") is not None else None
    if stored is None or not abs(stored - cp0) <= 2 * np.spacing(cp0):
        viol("k-initial-cp", f"k={k:.3g}:stored", "after a fit request "
             f"with too few points the stored initial contact point is "
             f"{stored!r}, given {cp0!r}")
    try:
        back = idnt.get_initial_fit_parameters()["contact_point"].value
    except BaseException as e:
        if isinstance(e, (KeyboardInterrupt, SystemExit, MemoryError)):
            raise
        back = repr(e)
    if not isinstance(back, float) or \
            not abs(back - cp0) <= 2 * np.spacing(cp0):
        viol("k-initial-cp", f"k={k:.3g}:handed-back",
             f"get_initial_fit_parameters() hands back contact point "
             f"{back!r}, given {cp0!r}")
    # the next fit on the whole segment equals the k = 1 history
    res = {}
    for kk, obj in ((k, idnt), (1.0, None)):
        if obj is None:
            obj = synth.make_curve(mk, tr, n_app=160, n_ret=140,
                                   x_start=1.0e-6, depth=DEPTH, noise=0.0,
                                   seed=5)
            P1 = nmodel.models_available[mk].get_parameter_defaults()
            P1["contact_point"].set(value=cp0)
            P1["E"].set(value=1.2 * E)
            obj.fit_model(model_key=mk, params_initial=P1, gcf_k=1.0,
                          weight_cp=0)
        else:
            obj.fit_model(range_type="absolute", range_x=[0, 0])
        res[kk] = obj.fit_properties
    if res[k].get("success") and res[1.0].get("success"):
        ck = res[k]["params_fitted"]["contact_point"].value
        c1 = res[1.0]["params_fitted"]["contact_point"].value
        rE = res[k]["params_fitted"]["E"].value / (
            res[1.0]["params_fitted"]["E"].value * k ** (-POWER[mk]))
        if not abs(ck - c1) / DEPTH <= 1e-6 or not abs(rE - 1) <= 1e-5:
            viol("k-invariance", f"k={k:.3g}:next-fit", "the fit after the "
                 f"unsuccessful request: contact point {ck!r} vs {c1!r}, "
                 f"E_k / (E_1 k^-p) = {rE!r}")
    elif res[k].get("success") != res[1.0].get("success"):
        viol("k-invariance", f"k={k:.3g}:next-fit", "the fit after the "
             "unsuccessful request does not succeed")
    return out, ("few-points", "first request successful:", first_success)


def fitter_case(case):
    """the fit is requested from IndentationFitter directly (k is a
    keyword of the constructor), on a fresh curve or on one that was
    fitted with another k before"""
    from nanite import model as nmodel
    from nanite.fit import IndentationFitter
    out = []
    mk, k, prior = case["model"], case["k"], case["prior_k"]
    p = POWER[mk]

    def viol(clause, wit, detail):
        out.append(V(PROP, clause, site="IndentationFitter", witness=wit,
                     detail=detail, case=case, kind="grid"))
    E = {"hertz_para": 3000.0, "hertz_cone": 9000.0,
         "hertz_pyr3s": 40000.0}[mk]
    res = {}
    for kk in (1.0, k):
        tr = synth.truth_params(mk, E=E, contact_point=CP_TRUE,
                                baseline=4e-11)
        idnt = synth.make_curve(mk, tr, n_app=160, n_ret=140, x_start=1.0e-6,
                                depth=DEPTH, noise=0.0, seed=5)
        P = nmodel.models_available[mk].get_parameter_defaults()
        P["contact_point"].set(value=CP_TRUE + 3e-8)
        P["baseline"].set(value=2e-11)
        if prior is not None:
            P0 = nmodel.models_available[mk].get_parameter_defaults()
            P0["contact_point"].set(value=CP_TRUE + 3e-8)
            P0["E"].set(value=1.2 * E * prior ** (-p))
            idnt.fit_model(model_key=mk, params_initial=P0, gcf_k=prior,
                           weight_cp=0)
        P["E"].set(value=1.2 * E * kk ** (-p))
        try:
            f = IndentationFitter(idnt, model_key=mk, params_initial=P,
                                  gcf_k=kk, weight_cp=0, segment=0,
                                  range_type="absolute", range_x=[0, 0])
            f.fit()
            res[kk] = f.fp
        except BaseException as e:
            if isinstance(e, (KeyboardInterrupt, SystemExit, MemoryError)):
                raise
            viol("k-invariance", f"k={kk:.3g}:raises", repr(e))
            return out, ("raises",)
    f1, fk = res[1.0], res[k]
    if not (f1.get("success") and fk.get("success")):
        viol("k-invariance", f"k={k:.3g}:success", "unsuccessful")
        return out, ("unsuccessful",)
    q1, qk = f1["params_fitted"], fk["params_fitted"]
    dcp = abs(qk["contact_point"].value - q1["contact_point"].value) / DEPTH
    rE = qk["E"].value / (q1["E"].value * k ** (-p))
    wit = f"k={k:.3g}" + ("" if prior is None else f":after-k={prior:.3g}")
    if not dcp <= 1e-8:
        viol("k-invariance", wit + ":contact_point", f"|d cp|/depth = "
             f"{dcp:.2e}")
    if not abs(rE - 1) <= 1e-6:
        viol("k-scaling", wit, f"E_k / (E_1 k^-{p}) = {rE!r} (fit "
             f"requested with IndentationFitter(idnt, gcf_k={k}))")
    return out, ("fitter", prior is not None)


def refit_case(case):
    """one curve object: a fit with k_old, then only k is changed (keyword
    of fit_model, or a direct edit of the setting followed by fit_model):
    the results are those of a fit with the new k"""
    from nanite import model as nmodel
    out = []
    mk, k, kold, how = case["model"], case["k"], case["k_old"], case["how"]
    p = POWER[mk]

    def viol(clause, wit, detail):
        out.append(V(PROP, clause, site="refit:" + how, witness=wit,
                     detail=detail, case=case, kind="grid"))
    E = {"hertz_para": 3000.0, "hertz_cone": 9000.0,
         "hertz_pyr3s": 40000.0}[mk]
    tr = synth.truth_params(mk, E=E, contact_point=CP_TRUE, baseline=4e-11)

    def curve():
        return synth.make_curve(mk, tr, n_app=160, n_ret=140, x_start=1.0e-6,
                                depth=DEPTH, noise=0.0, seed=5)

    def params(kk):
        P = nmodel.models_available[mk].get_parameter_defaults()
        P["contact_point"].set(value=CP_TRUE + 3e-8)
        P["baseline"].set(value=2e-11)
        P["E"].set(value=1.2 * E * kk ** (-p))
        return P
    ref = curve()
    c = curve()
    if how.startswith("model-switch"):
        # the curve was fitted with another model before; model and
        # correction factor are then given in one call
        other = "hertz_cone" if mk != "hertz_cone" else "hertz_para"
        ref.fit_model(model_key=other, gcf_k=1.0, weight_cp=0)
        ref.fit_model(model_key=mk, gcf_k=1.0)
        c.fit_model(model_key=other, gcf_k=kold, weight_cp=0)
    else:
        ref.fit_model(model_key=mk, params_initial=params(1.0), gcf_k=1.0,
                      weight_cp=0)
        c.fit_model(model_key=mk, params_initial=params(kold), gcf_k=kold,
                    weight_cp=0)
    try:
        if how == "model-switch":
            c.fit_model(model_key=mk, gcf_k=k)
        elif how == "keyword":
            c.fit_model(gcf_k=k)
        else:
            c.fit_properties["gcf_k"] = k
            c.fit_model()
    except BaseException as e:
        if isinstance(e, (KeyboardInterrupt, SystemExit, MemoryError)):
            raise
        viol("k-invariance", f"k={kold:.3g}->{k:.3g}:raises", repr(e))
        return out, ("raises",)
    f1, fk = ref.fit_properties, c.fit_properties
    if not (f1.get("success") and fk.get("success")):
        viol("k-invariance", f"k={kold:.3g}->{k:.3g}:success",
             "unsuccessful")
        return out, ("unsuccessful",)
    q1, qk = f1["params_fitted"], fk["params_fitted"]
    rE = qk["E"].value / (q1["E"].value * k ** (-p))
    dcp = abs(qk["contact_point"].value - q1["contact_point"].value) / DEPTH
    # (the second fit starts from the stored start values of the first:
    # optimiser precision, not round-off)
    if not abs(rE - 1) <= 1e-4:
        viol("k-scaling", f"k={kold:.3g}->{k:.3g}", f"after changing only "
             f"k on a fitted curve: E_k / (E_1 k^-{p}) = {rE!r}")
    if not dcp <= 1e-5:
        viol("k-invariance", f"k={kold:.3g}->{k:.3g}:contact_point",
             f"|d cp|/depth = {dcp:.2e}")
    return out, ("refit", how)


def case_fn(case):
    if case.get("mode") == "guessed":
        return guessed_case(case)
    if case.get("mode") == "refit":
        return refit_case(case)
    if case.get("mode") == "fitter":
        return fitter_case(case)
    if case.get("mode") == "few-points":
        return fewpoints_case(case)
    if case.get("mode") == "cp-limits":
        return limits_case(case)
    out = []
    mk, noisy, seg = case["model"], case["noisy"], case["segment"]
    mode, cp0, k = case["mode"], case["cp0"], case["k"]
    rec = case.get("recorded")
    p = POWER[mk]

    def viol(clause, wit, detail):
        out.append(V(PROP, clause, site=f"{mode}", witness=wit,
                     detail=detail, case=case, kind="grid"))
    fixed = tuple(case.get("fixed", ()))
    i1, p1, e1 = run_fit(mk, noisy, seg, mode, cp0, 1.0, rec, fixed)
    ik, pk, ek = run_fit(mk, noisy, seg, mode, cp0, k, rec, fixed)
    if (e1 is None) != (ek is None):
        viol("k-invariance", f"k={k:.3g}:raises", f"k=1: {e1!r}, "
             f"k={k}: {ek!r}")
        return out, ("raises-differ",)
    if e1 is not None:
        return out, ("raises", type(e1).__name__)
    f1, fk = i1.fit_properties, ik.fit_properties
    if f1.get("success") != fk.get("success"):
        viol("k-invariance", f"k={k:.3g}:success", f"success "
             f"{f1.get('success')} vs {fk.get('success')}")
        return out, ("success-differs",)
    if not f1.get("success"):
        return out, ("unsuccessful",)
    x = np.asarray(ik["tip position"], dtype=float)
    y = np.asarray(ik["force"], dtype=float)
    depth = abs(x.min())
    Fmax = np.max(np.abs(y))
    # exact, independent of optimiser tolerance: every pass starts from
    # k x the stored initial contact point, on k x the measured abscissa
    for n, ps in enumerate(pk):
        if ps["cp0"] is None or not abs(ps["cp0"] - k * cp0) <= \
                2 * np.spacing(abs(k * cp0)):
            viol("k-initial-cp", f"k={k:.3g}:pass{n + 1}",
                 f"pass {n + 1} starts from contact point {ps['cp0']!r}, "
                 f"expected k x stored initial value = {k * cp0!r}")
            break
    stored = fk["params_initial"]["contact_point"].value
    if not abs(stored - cp0) <= 2 * np.spacing(abs(cp0)):
        viol("k-initial-cp", f"k={k:.3g}:stored", "the stored initial "
             f"contact point is {stored!r} after the fit, set to {cp0!r}")
    if len(pk) != len(p1):
        viol("k-invariance", f"k={k:.3g}:passes", f"{len(pk)} optimisation "
             f"passes vs {len(p1)} for k = 1")
    # every pass fits k x the measured abscissa of the same point set
    xs = np.asarray(ik["tip position"], dtype=float)
    for n, (a, b) in enumerate(zip(pk, p1)):
        if mode in ("abs-whole", "abs-interval") and not (
                a["x"].size == b["x"].size
                and np.array_equal(a["x"], b["x"] * k)):
            viol("k-invariance", f"k={k:.3g}:abscissa", f"pass {n + 1} "
                 "does not fit k x the abscissa of the k = 1 pass")
            break
    if mode == "plateau" and (noisy or mk != "hertz_para" or fixed):
        # shallow scan samples are ill-conditioned on noisy data and for a
        # strongly mismatched model: which local optimum is reached depends
        # on round-off, for every k; only the exact per-pass checks apply
        return out, ("per-pass-only", len(pk))
    tol = 1e-4 if (noisy or rec) else 1e-8
    if (mode == "plateau" and not noisy) or (fixed and not noisy):
        # the fitted model differs from the generating one (or a parameter
        # is held at a wrong value): a non-zero residual optimum is located
        # to optimiser precision only
        tol = 1e-5
    q1, qk = f1["params_fitted"], fk["params_fitted"]
    dcp = abs(qk["contact_point"].value - q1["contact_point"].value) / depth
    db = abs(qk["baseline"].value - q1["baseline"].value) / Fmax
    if not dcp <= tol:
        viol("k-invariance", f"k={k:.3g}:contact_point", f"contact point "
             f"{qk['contact_point'].value!r} vs k=1 "
             f"{q1['contact_point'].value!r} (|d|/depth = {dcp:.2e})")
    if not db <= tol:
        viol("k-invariance", f"k={k:.3g}:baseline", f"|d baseline|/F_max = "
             f"{db:.2e}")
    rE = qk["E"].value / (q1["E"].value * k ** (-p))
    if not abs(rE - 1) <= max(tol * 30, 1e-8):
        viol("k-scaling", f"k={k:.3g}", f"E_k / (E_1 k^-{p}) = {rE!r}")
    r1 = np.asarray(i1["fit range"]).astype(bool)
    rk = np.asarray(ik["fit range"]).astype(bool)
    if not np.array_equal(r1, rk):
        # only samples within tolerance of an interval end may differ
        diff = np.flatnonzero(r1 != rk)
        slack = max(tol * depth, 1e-14)
        ends = []
        if mode == "relative":
            c = q1["contact_point"].value
            ends = [c - 6e-7, c + 3e-7]
        elif mode == "plateau":
            ends = [f1.get("optimal_fit_delta"), fk.get("optimal_fit_delta")]
        ok = mode in ("relative", "plateau") and all(
            any(abs(x[i] - e) <= slack for e in ends) for i in diff)
        if mode == "plateau" and f1.get("optimal_fit_delta") != \
                fk.get("optimal_fit_delta"):
            ok = False
        if not ok:
            viol("k-invariance", f"k={k:.3g}:fit-range", "the fitted "
                 f"point set differs from k = 1 at indices "
                 f"{diff[:6].tolist()} ({int(rk.sum())} vs "
                 f"{int(r1.sum())} points)")
    both = r1 & rk
    for key in ("xmin", "xmax"):
        if np.array_equal(r1, rk) and \
                abs(fk[key] - f1[key]) > 4 * np.spacing(abs(f1[key])):
            viol("k-invariance", f"k={k:.3g}:{key}", f"{key} {fk[key]!r} "
                 f"vs {f1[key]!r}")
    c1 = np.asarray(i1["fit"], dtype=float)
    ck = np.asarray(ik["fit"], dtype=float)
    if np.any(np.isnan(c1) != np.isnan(ck)):
        viol("k-invariance", f"k={k:.3g}:fit-nan", "NaN pattern of the fit "
             "column differs")
    else:
        d = np.nanmax(np.abs(c1 - ck)) / Fmax
        if not d <= tol * 10:
            viol("k-invariance", f"k={k:.3g}:fit", f"fit curve differs "
                 f"from k = 1 by {d:.2e} F_max")
    return out, ("compared", len(pk))


def cases(tier):
    cs = []
    for mk in POWER:
        for noisy in (False, True):
            for seg in (0, 1):
                for mode in MODES:
                    if mode == "plateau" and seg == 1:
                        continue        # DESIGN O10
                    for cp0 in CP0S:
                        for k in KS:
                            if tier == "quick" and noisy and k in (
                                    0.1, 0.6) and mode != "relative":
                                continue
                            cs.append({"kind": "grid", "model": mk,
                                       "noisy": noisy, "segment": seg,
                                       "mode": mode, "cp0": cp0, "k": k})
                            # user-fixed parameters (contact point held
                            # at its initial value, or baseline)
                            if k in (0.5, 2.0) and not noisy:
                                for fx in (["contact_point"], ["baseline"]):
                                    cs.append({"kind": "grid", "model": mk,
                                               "noisy": noisy,
                                               "segment": seg, "mode": mode,
                                               "cp0": cp0, "k": k,
                                               "fixed": fx})
    # k given as a Python integer
    for mk in POWER:
        for seg in (0, 1):
            for mode in ("abs-whole", "abs-interval", "relative"):
                for k in (2, 3):
                    cs.append({"kind": "grid", "model": mk, "noisy": False,
                               "segment": seg, "mode": mode,
                               "cp0": CP0S[0], "k": k})
    # no initial parameters given: the contact point is estimated
    for mk in POWER:
        for seg in (0, 1):
            for k in KS:
                for entry in ("fit_model", "get_initial_fit_parameters"):
                    cs.append({"kind": "grid", "mode": "guessed", "model": mk,
                               "segment": seg, "k": k, "entry": entry,
                               "compare": k in (0.5, 0.6, 2.0)})
    # the fit is requested from the fitter class directly
    for mk in POWER:
        for k in KS:
            for prior in (None, 0.5, 1.0):
                if prior == k:
                    continue
                cs.append({"kind": "grid", "mode": "fitter", "model": mk,
                           "k": k, "prior_k": prior})
    # only k changes on a curve that is already fitted
    for mk in POWER:
        for kold, k in ((1.0, 0.5), (0.5, 1.0), (1.0, 2.0), (0.5, 0.25),
                        (2.0, 0.6)):
            for how in ("keyword", "edit", "model-switch"):
                cs.append({"kind": "grid", "mode": "refit", "model": mk,
                           "k": k, "k_old": kold, "how": how})
    # fit requests whose range holds too few points
    for mk in POWER:
        for k in KS + [1.0]:
            for rng in ("absolute", "relative"):
                cs.append({"kind": "grid", "mode": "few-points", "model": mk,
                           "k": k, "range": rng})
    # the contact point carries finite limits
    for mk in POWER:
        for seg in (0, 1):
            for k in KS:
                for rng in ("whole", "relative"):
                    for hw in (1e-6, 3e-7):
                        cs.append({"kind": "grid", "mode": "cp-limits",
                                   "model": mk, "segment": seg, "k": k,
                                   "range": rng, "halfwidth": hw})
    if tier == "thorough":
        for f in ("fmt-jpk-fd_spot3-0192.jpk-force",
                  "fmt-jpk-fd_single_tilted-baseline-drift-mitotic_"
                  "2021-01-29.jpk-force"):
            for mode in ("abs-whole",):
                for k in (0.5, 0.23, 2.0):
                    cs.append({"kind": "grid", "model": "hertz_para",
                               "noisy": True, "segment": 0, "mode": mode,
                               "cp0": 0.0, "k": k, "recorded": f})
    return cs


def replay(doc):
    return case_fn(doc["case"])[0]


def run(tier):
    rep = Report(PROP, tier, LEVEL)
    cs = cases(tier)
    cl = grid.run_cases(rep, __name__, "case_fn", cs, chunk=6,
                        label="cells")
    rep.set("outcome_classes", {str(k): v for k, v in sorted(
        cl.items(), key=str)})
    rep.set("distinct_nontrivial",
            sum(v for k, v in cl.items()
                if k[0] in ("compared", "per-pass-only")))
    rep.set("rule", "full product model x noise x segment x range mode x "
            "initial contact point x k; non-trivial = both the k and the "
            "k = 1 fit completed and were compared")
    rep.set("exhaustive", True)
    rep.set("axes", {"models": list(POWER), "k": KS, "modes": MODES,
                     "initial_contact_points": CP0S})
    rep.sample(cs[0])
    rep.sample(cs[len(cs) // 2])
    rep.sample(cs[-1])
    rep.assumptions += [
        "tolerances: 1e-8 (noise-free) / 1e-4 (noisy, weighting off) "
        "relative to depth / F_max; the per-pass start value check is "
        "exact (2 ulp)",
        "plateau search is combined with the approach segment only",
    ]
    return rep
