"""C09 - quality rating is total, deterministic, in range, tied to the
current fit.  HIST search over curve-state ops x rating ops, a full sweep
of the rating menu over representative states, and process enumeration
(three interpreters with different hash seeds)."""
import json
import os
import subprocess
import sys

import numpy as np

from .. import canon as cn
from .. import hist, ops, synth, VERIF_ROOT
from ..core import Report, V, pmap, shuffled

PROP = "C09"
LEVEL = "model_checking"

P0 = ["compute_tip_position"]
P1 = ["compute_tip_position", "correct_force_offset", "correct_tip_offset"]
USER_TS = os.path.join(VERIF_ROOT, "scratch", "ts_user60")
NAMES_A = ["feat_con_apr_flatness", "feat_con_apr_size", "feat_con_bln_slope",
           "feat_con_idt_sum", "feat_bin_size"]
NAMES_B = ["feat_con_idt_monotony", "feat_con_cp_curvature",
           "feat_con_apr_sum"]
AVERAGING_TREES = ["Extra Trees", "Random Forest", "Decision Tree",
                   "AdaBoost"]


def ensure_user_ts():
    """60-row user training set directory exported by the harness."""
    from nanite.rate.rater import IndentationRater
    src = IndentationRater.get_training_set_path("zef18")
    os.makedirs(USER_TS, exist_ok=True)
    for f in sorted(os.listdir(src)):
        if f.startswith("train_") and f.endswith(".txt"):
            dst = os.path.join(USER_TS, f)
            if not os.path.exists(dst):
                lines = open(os.path.join(src, f)).read().splitlines()
                tmp = dst + f".{os.getpid()}.tmp"
                with open(tmp, "w") as fd:
                    fd.write("\n".join(lines[5::19][:60]) + "\n")
                os.replace(tmp, dst)
    return USER_TS


_MEM = {}


def ts_arg(ts):
    """'user' = the harness's training-set directory; 'mem1' / 'mem2' =
    two different in-memory (samples, response) tuples (fresh arrays for
    every call, as a caller who loads them anew would pass them)"""
    if ts == "user":
        return USER_TS
    if ts in ("mem1", "mem2"):
        if not _MEM:
            from nanite.rate.rater import IndentationRater
            X, y = IndentationRater.load_training_set(
                IndentationRater.get_training_set_path("zef18"))
            _MEM["mem1"] = (X, y)
            _MEM["mem2"] = (X[::2].copy(), y[::2].copy())
        X, y = _MEM[ts]
        return (X.copy(), y.copy())
    if ts == "mem-invalid":
        # a training set of the user's that also holds curves rated
        # "-1 / invalid" (the rating GUI offers -1..10); here: 40 samples
        # that look like the fitted long curve itself
        if "mem-invalid" not in _MEM:
            from nanite.rate.features import IndentationFeatures as IF
            X, y = ts_arg("mem1")
            idnt = DRIVERS["long_fitted"].fresh()
            f = np.asarray(IF.compute_features(idnt, which_type="continuous"),
                           dtype=float)
            rs = np.random.RandomState(5)
            Xi = f[None, :] * (1 + 0.01 * rs.standard_normal((40, f.size)))
            ok = np.all(np.isfinite(Xi), axis=1)
            _MEM["mem-invalid"] = (np.vstack([X, Xi[ok]]),
                                   np.concatenate([y, -np.ones(ok.sum())]))
        X, y = _MEM["mem-invalid"]
        return (X.copy(), y.copy())
    return ts


def kept_tuple(idnt):
    """"mem1-kept": a caller who loads the training set once and hands the
    very same tuple to every rating of one curve (kept with the curve, so
    that every history has a tuple of its own)"""
    if "_verif_kept" not in idnt.__dict__:
        idnt.__dict__["_verif_kept"] = ts_arg("mem1")
    return idnt.__dict__["_verif_kept"]


def kept_digest(idnt):
    if "_verif_kept" not in idnt.__dict__:
        return None
    import hashlib
    X, y = idnt.__dict__["_verif_kept"]
    return hashlib.sha1(np.ascontiguousarray(X).tobytes()
                        + np.ascontiguousarray(y).tobytes()).hexdigest()[:12]


_RATERS = {}


def standalone_rater(reg, ts, names, lda):
    """a rater constructed by the harness: documented hyper-parameters of
    the named regressor as they are in a fresh interpreter, training set
    loaded from its directory"""
    from nanite.rate import rater as rmod
    from .. import state
    key = json.dumps([reg, ts, names, lda])
    if key not in _RATERS:
        reg_cl, kw = state.pristine("nanite.rate.regressors",
                                    "reg_dict")[reg]
        # (equal values in untouched arrays for the kept tuple)
        tsp = ts_arg("mem1" if ts == "mem1-kept" else ts)
        if isinstance(tsp, tuple):
            X, y = tsp
        else:
            if tsp in rmod.get_available_training_sets():
                tsp = rmod.IndentationRater.get_training_set_path(label=tsp)
            X, y = rmod.IndentationRater.load_training_set(path=tsp,
                                                           names=names)
        _RATERS[key] = rmod.IndentationRater(
            regressor=reg_cl(**kw), training_set=(X, y), names=names,
            lda=lda)
    return _RATERS[key]


def n_approach(idnt):
    return int(np.sum(np.asarray(idnt["segment"]) == 0))


def expected_rating(idnt, reg, ts, names, lda):
    """Reference: returns (set of admissible values, explanation)."""
    from nanite.rate.features import IndentationFeatures as IF
    if reg.lower() == "none":
        return {-1.0}, "pseudo-regressor none"
    fp = idnt.fit_properties
    all_names = sorted(IF.get_feature_names(names=names, which_type="all"))
    fitted = bool(fp) and fp.get("success", False) is True \
        and "params_fitted" in fp and "hash" in fp
    if not fitted:
        adm = {-1.0}
        if "feat_bin_size" in all_names and n_approach(idnt) < 600:
            adm.add(0.0)
        # "... or 0 if an exclusion criterion already fails": decided from
        # the binary features themselves (not from the rater's own logic)
        try:
            bnames = [n for n in all_names if n.startswith("feat_bin_")]
            bvals = IF.compute_features(idnt, which_type="all",
                                        names=bnames) if bnames else []
            if any(v == 0 for v in bvals):
                return {0.0}, "no successful current fit"
            elif 0.0 in adm and len(bvals) and not any(v == 0
                                                       for v in bvals):
                adm = {-1.0}
        except BaseException as e:
            if isinstance(e, (KeyboardInterrupt, SystemExit, MemoryError)):
                raise
        # ... and among the admissible values it is the one the stand-alone
        # rater computes from the curve as it is now (a value remembered
        # from another state of the curve is not)
        try:
            sv = float(np.atleast_1d(standalone_rater(
                reg, ts, names, lda).rate(datasets=idnt))[0])
            if sv in adm:
                adm = {sv}
        except BaseException as e:
            if isinstance(e, (KeyboardInterrupt, SystemExit, MemoryError)):
                raise
        return adm, "no successful current fit"
    feats = IF.compute_features(idnt, which_type="all", names=all_names)
    for nm, val in zip(all_names, feats):
        if nm.startswith("feat_bin_") and val == 0:
            return {0.0}, f"binary criterion {nm} failed"
    for nm, val in zip(all_names, feats):
        if not nm.startswith("feat_bin_") and np.isnan(val):
            return {-1.0}, f"feature {nm} undefined"
    rt = standalone_rater(reg, ts, names, lda)
    samp = [feats[all_names.index(n)] for n in rt.names]
    val = float(rt.rate(samples=np.array([samp]))[0])
    return {val}, "standalone rater prediction"


def check_rating(idnt, rop, obs, case, site="rate_quality"):
    out = []
    _, reg, ts, names, lda = rop
    wit = json.dumps([reg, ts, "names" if names else None, lda])

    def viol(clause, detail):
        out.append(V(PROP, clause, site=site, witness=wit, detail=detail,
                     case=case, kind="hist"))
    if not obs["ok"]:
        viol("rate-raises", f"rate_quality raised {obs['exc']}")
        return out
    val = obs["ret"]
    adm, why = expected_rating(idnt, reg, ts, names, lda)
    if not any(val == a for a in adm):
        clause = {"pseudo-regressor none": "value-none",
                  "no successful current fit": "value-no-fit",
                  "standalone rater prediction": "standalone-differs",
                  }.get(why, "value-binary" if "binary" in why
                        else "value-nan")
        viol(clause, f"returned {val!r}, expected {sorted(adm)} ({why})")
    if why == "standalone rater prediction" and reg in AVERAGING_TREES \
            and lda in (None, False) and not (0 <= val <= 10):
        viol("value-range", f"{val} outside [0, 10]")
    return out


def rating_op(reg, ts="zef18", names=None, lda=None):
    return ["R", reg, ts, names, lda]


STATE_OPS = [
    ["P", P1, {}, False],
    ["P", P0, {}, False],
    ["F", {}],
    ["F", {"weight_cp": 0}],
    ["F", {"range_x": [-4e-9, 4e-9]}],       # too few points: unsuccessful
    ["F", {"range_x": [0, 0]}],
    # unsuccessful although an earlier pass left fitted parameters
    ["F", {"range_type": "relative cp", "range_x": [-1e-9, 1e-9]}],
    ["F", {"range_type": "absolute"}],
    ["E", "weight_cp", 0],
    ["F", {"range_type": "bogus"}],          # raises
]
RATE_OPS = [
    rating_op("Decision Tree"),
    rating_op("Decision Tree", "user"),
    rating_op("Decision Tree", "zef18", NAMES_A),
    rating_op("Decision Tree", "zef18", None, True),
    rating_op("Decision Tree", "user", NAMES_B, True),
    rating_op("none"),
    rating_op("NONE", "user"),
    rating_op("SVR (linear kernel)", "user"),
    rating_op("SVR (linear kernel)", "user", None, False),
    rating_op("SVR (linear kernel)", "user", None, True),
    rating_op("Extra Trees", "user"),
]


G_OP = ["G", "Extra Trees", "user", {"n_estimators": 3, "max_depth": 2,
                                     "random_state": 7}]


class Driver(hist.Driver):
    prop = PROP
    name = "long"
    n_app = 700
    ops = STATE_OPS + RATE_OPS + [G_OP]

    def fresh(self):
        ensure_user_ts()
        tr = synth.truth_params("hertz_para", E=3000.0, contact_point=2e-7,
                                baseline=1e-10)
        idnt = synth.make_curve("hertz_para", tr, n_app=self.n_app,
                                n_ret=100, x_start=2e-6, depth=1e-6,
                                noise=3e-11, seed=1, tilt=1e-5,
                                innate_tip=False)
        return idnt

    def apply(self, idnt, op):
        if op[0] == "G":
            # somebody else builds a rater with hyper-parameters of his own
            from nanite.rate import rater as rmod
            exc = None
            try:
                rmod.get_rater(op[1], training_set=ts_arg(op[2]), **op[3])
            except BaseException as e:
                if isinstance(e, (KeyboardInterrupt, SystemExit,
                                  MemoryError)):
                    raise
                exc = ops.short_exc(e)
            return {"ok": exc is None, "exc": exc, "minimize": 0,
                    "trainings": 0, "ret": None}
        if op[0] == "R":
            ts = kept_tuple(idnt) if op[2] == "mem1-kept" else ts_arg(op[2])
            op = ["R", op[1], ts, op[3], op[4]]
        return ops.apply_op(idnt, op)

    def canon(self, idnt):
        c = cn.indent_canon(idnt)
        kd = kept_digest(idnt)
        return c if kd is None else c + ":" + kd

    def pre_info(self, idnt, op):
        return {"canon_norating": cn.indent_canon(idnt, with_rating=False)}

    def check_transition(self, pre, op, obs, idnt, hops):
        if op[0] != "R":
            return []
        out = check_rating(idnt, op, obs, self.case(hops))
        if cn.indent_canon(idnt, with_rating=False) != pre["canon_norating"]:
            out.append(V(PROP, "rating-changes-curve", site="rate_quality",
                         witness=json.dumps(op)[:80],
                         detail="rate_quality changed fit state or columns",
                         case=self.case(hops), kind="hist"))
        return out

    def state_stats(self, idnt):
        st = {"rated_states": int(idnt._rating is not None)}
        if idnt._rating is not None:
            st["distinct_ratings"] = float(idnt._rating[-1]).hex()
        return st


class Short(Driver):
    name = "short"
    n_app = 300


class LongFitted(Driver):
    """starts from a preprocessed and fitted long curve; raters with other
    hyper-parameters are built in between the ratings"""
    name = "long_fitted"
    ops = [G_OP,
           ["G", "Decision Tree", "zef18", {"max_depth": 1}],
           ["F", {"weight_cp": 0}],
           rating_op("Extra Trees", "user"),
           rating_op("Extra Trees"),
           rating_op("Decision Tree"),
           rating_op("Decision Tree", "user", NAMES_B, True),
           rating_op("Extra Trees", "mem1"),
           rating_op("Extra Trees", "mem2"),
           rating_op("SVR (RBF kernel)", "mem1-kept"),
           rating_op("Extra Trees", "mem1-kept"),
           rating_op("Extra Trees", "mem-invalid"),
           rating_op("Random Forest", "mem-invalid")]

    def fresh(self):
        idnt = super().fresh()
        idnt.apply_preprocessing(list(P1))
        idnt.fit_model(model_key="hertz_para")
        return idnt


class LongPlateau(Driver):
    """starts from a preprocessed curve fitted with the modulus-plateau
    search; refits that change only settings of the search (number of
    samples, upper boundary) between the ratings"""
    name = "long_plateau"
    ops = [["F", {"optimal_fit_num_samples": 30}],
           ["F", {"optimal_fit_num_samples": 10}],
           ["F", {"range_x": [0, 6e-7]}],
           ["F", {"optimal_fit_edelta": False}],
           # (on this curve the shipped training set tells these fits apart)
           rating_op("Extra Trees"),
           rating_op("Random Forest")]

    def fresh(self):
        idnt = super().fresh()
        idnt.apply_preprocessing(list(P1))
        idnt.fit_model(model_key="hertz_para", optimal_fit_edelta=True,
                       optimal_fit_num_samples=10)
        return idnt


class ShortReject(Short):
    """a short curve (size criterion fails once it is preprocessed), valid
    and rejected preprocessing requests, fits and ratings - deeper"""
    name = "short_reject"
    ops = [["P", P1, {}, False],
           ["P", ["compute_tip_position", "nope"], {}, False],
           ["P", ["correct_tip_offset"], {}, False],
           ["F", {}],
           rating_op("Decision Tree"),
           rating_op("Extra Trees", "user"),
           G_OP]


class Recorded(Driver):
    name = "recorded"
    ops = STATE_OPS[:1] + [["F", {"model_key": "sneddon_spher_approx"}],
                           ["F", {"weight_cp": 0}], ["E", "weight_cp", 0],
                           ["F", {"range_x": [-4e-9, 4e-9]}],
                           ["F", {"range_type": "relative cp",
                                  "range_x": [-1e-10, 1e-10]}]] \
        + RATE_OPS[:6] + RATE_OPS[7:10]

    def fresh(self):
        from nanite import IndentationGroup
        ensure_user_ts()
        return IndentationGroup(
            "/repo/tests/data/fmt-jpk-fd_spot3-0192.jpk-force")[0]


DRIVERS = {d.name: d() for d in (Driver, Short, ShortReject, LongFitted,
                                 LongPlateau,
                                 Recorded)}

# representative curve states for the full sweep: (driver, history of ops)
SWEEP_STATES = [
    ("long", []),
    ("long", [0]),
    ("long", [0, 2]),
    ("long", [0, 2, 8]),
    ("long", [0, 2, 3]),
    ("long", [0, 4]),
    ("long", [0, 6]),
    ("long", [0, 2, 9]),
    ("short", [0, 2]),
    ("short", [0]),
    ("recorded", [0, 1]),
    ("recorded", [0, 1, 3]),
    ("recorded", [0, 4]),
    ("recorded", [0, 1, 5]),
]


def sweep_menu(tier):
    from nanite.rate.regressors import reg_names
    regs = list(reg_names) + ["none", "NONE"]
    if tier == "quick":
        names_l, lda_l = [None, NAMES_A], [None, False, True]
    else:
        names_l, lda_l = [None, NAMES_A, NAMES_B], [None, True, False]
    menu = []
    for reg in regs:
        for ts in ("zef18", "user"):
            for names in names_l:
                for lda in lda_l:
                    menu.append(rating_op(reg, ts, names, lda))
    return menu


def _sweep_work(args):
    dname, h, rops = args
    drv = DRIVERS[dname]
    idnt, _ = hist.build(drv, h)
    res = []
    done = []
    for rop in rops:
        obs = drv.apply(idnt, rop)
        # the object is reused for the whole job: the witness carries every
        # rating issued on it so far (self-contained for replay)
        done.append(rop)
        hops = [drv.ops[i] for i in h] + list(done)
        vs = check_rating(idnt, rop, obs, drv.case(hops), site="sweep")
        # repeated call: identical value
        obs2 = drv.apply(idnt, rop)
        if obs2 != obs and not (obs["ok"] is False):
            if obs2["ret"] != obs["ret"]:
                vs.append(V(PROP, "repeat-differs", site="sweep",
                            witness=json.dumps(rop)[:80],
                            detail=f"{obs['ret']} then {obs2['ret']}",
                            case=drv.case(hops + [rop]), kind="hist"))
        done.append(rop)
        res.append((rop, obs["ret"] if obs["ok"] else obs["exc"], vs))
    return dname, h, res


def table(states, menu):
    """rating table for process enumeration (cheap part of the menu)"""
    out = []
    for dname, h in states:
        drv = DRIVERS[dname]
        idnt, _ = hist.build(drv, h)
        for rop in menu:
            obs = drv.apply(idnt, rop)
            v = obs["ret"] if obs["ok"] else obs["exc"]
            out.append(float(v).hex() if isinstance(v, float) else v)
    return out


TABLE_MENU = [rating_op("Decision Tree"), rating_op("Extra Trees", "user"),
              rating_op("Random Forest", "user", NAMES_A),
              rating_op("SVR (RBF kernel)", "user"),
              rating_op("AdaBoost", "user", None, True),
              rating_op("Gradient Tree Boosting", "user", NAMES_B)]
TABLE_STATES = [s for s in SWEEP_STATES if s[0] != "recorded"][:8] \
    + [("recorded", [0, 1])]


BATCH_STATES = [("long", [0, 2]), ("long", [0]), ("long", [0, 4]),
                ("long", []), ("short", [0, 2])]


def batch_case(case):
    """the stand-alone rater, given several curves in one call (a map, a
    rating container), rates each of them as it rates it alone - and as
    rate_quality does"""
    from nanite.rate import rater as rmod
    from nanite.rate.features import IndentationFeatures as IF
    from .. import state
    state.restore()
    out = []
    reg, ts, names, lda = case["rating"]
    curves = []
    for dname, h in BATCH_STATES:
        idnt, _ = hist.build(DRIVERS[dname], h)
        curves.append(idnt)
    if case["order"] == "reversed":
        curves = curves[::-1]
    rt = rmod.get_rater(regressor=reg, training_set=ts_arg(ts), names=names,
                        lda=lda)
    try:
        alone = [float(np.atleast_1d(rt.rate(datasets=c))[0])
                 for c in curves]
        batch = [float(v) for v in np.atleast_1d(rt.rate(datasets=curves))]
        rq = [float(c.rate_quality(regressor=reg, training_set=ts_arg(ts),
                                   names=names, lda=lda)) for c in curves]
    except BaseException as e:
        if isinstance(e, (KeyboardInterrupt, SystemExit, MemoryError)):
            raise
        out.append(V(PROP, "rate-raises", site="rater-batch",
                     witness=json.dumps(case["rating"][:2]), detail=repr(e),
                     case=case, kind="batch"))
        return out
    if batch != alone or rq != alone:
        out.append(V(PROP, "standalone-differs", site="rater-batch",
                     witness=json.dumps([reg, ts, case["order"]]),
                     detail=f"curves rated one by one {alone}, in one call "
                     f"{batch}, by rate_quality {rq}", case=case,
                     kind="batch"))
    return out


def replay(doc):
    ensure_user_ts()
    if doc.get("kind") == "batch":
        return batch_case(doc["case"])
    return hist.replay_case(doc["case"])


def run(tier):
    rep = Report(PROP, tier, LEVEL)
    ensure_user_ts()
    # process enumeration: 3 fresh interpreters, different hash seeds
    procs = []
    for hs in ("0", "1", "4242"):
        env = dict(os.environ, PYTHONHASHSEED=hs)
        procs.append(subprocess.Popen(
            [sys.executable, "-m", "mc.props.c09", "--table"], env=env,
            cwd=VERIF_ROOT, stdout=subprocess.PIPE, stderr=subprocess.PIPE,
            text=True))
    plan = {"quick": [("long", 3), ("short", 2), ("short_reject", 4),
                      ("long_fitted", 3), ("long_plateau", 3)],
            "thorough": [("long", 4), ("short", 3), ("short_reject", 6),
                         ("long_fitted", 5), ("long_plateau", 5),
                         ("recorded", 3)]}[tier]
    ratings = set()
    for name, depth in plan:
        drv = DRIVERS[name]
        seen, info = hist.search(drv, rep, depth, merge_check=("full" if tier == "thorough" else True))
        ratings |= info["raw_stats"].get("distinct_ratings", set())
        hs = sorted((h for h, _ in seen.values()), key=len)
        rep.sample({"driver": name, "history": [drv.ops[i] for i in hs[-1]]})
    # several curves in one call of the stand-alone rater
    nb = 0
    for rating in (["Extra Trees", "user", None, None],
                   ["Decision Tree", "zef18", None, None],
                   ["SVR (linear kernel)", "user", NAMES_A, None]):
        for order in ("given", "reversed"):
            nb += 1
            rep.extend(batch_case({"kind": "batch", "rating": rating,
                                   "order": order}))
    rep.set("batch_rating_cases", nb)
    rep.add("transitions", nb * len(BATCH_STATES))
    # full sweep of the rating menu over representative states
    menu = sweep_menu(tier)
    jobs = []
    for dname, h in SWEEP_STATES:
        for i in range(0, len(menu), 6):
            jobs.append((dname, h, menu[i:i + 6]))
    nsweep = 0
    vals = set()
    for dname, h, res in pmap(_sweep_work, shuffled(jobs)):
        for rop, val, vs in res:
            nsweep += 1
            rep.extend(vs)
            vals.add(repr(val))
    rep.add("transitions", nsweep * 2)
    rep.add("traces_validated_against_impl", len(jobs))
    rep.set("sweep_ratings", nsweep)
    rep.set("sweep_distinct_values", len(vals))
    rep.set("distinct_ratings_in_search", len(ratings))
    tabs = []
    for p in procs:
        o, e = p.communicate(timeout=900)
        if p.returncode != 0:
            rep.harness("process enumeration failed: " + e[-400:])
            break
        tabs.append(json.loads(o.strip().splitlines()[-1]))
    if len(tabs) == 3:
        rep.set("process_table_entries", len(tabs[0]))
        for i in (1, 2):
            if tabs[i] != tabs[0]:
                idx = [k for k in range(len(tabs[0]))
                       if tabs[i][k] != tabs[0][k]][0]
                st = TABLE_STATES[idx // len(TABLE_MENU)]
                rop = TABLE_MENU[idx % len(TABLE_MENU)]
                rep.violate(V(
                    PROP, "process-differs", site="rate_quality",
                    witness=json.dumps(rop)[:80],
                    detail=f"value {tabs[0][idx]} vs {tabs[i][idx]} in "
                    "interpreters with different PYTHONHASHSEED",
                    case=DRIVERS[st[0]].case(
                        [DRIVERS[st[0]].ops[j] for j in st[1]] + [rop]),
                    kind="hist"))
    rep.set("exhaustive", True)
    rep.set("bounds", dict(plan))
    rep.assumptions += [
        "expected value = documented rules + a separately constructed "
        "rater fed with features computed from the live curve (2-D sample "
        "array)",
        "[0, 10] is demanded for the averaging tree regressors without LDA",
        "without a successful current fit -1 is expected, 0 is admitted "
        "when the size criterion fails (fewer than 600 approach points)",
    ]
    return rep


if __name__ == "__main__":
    import mc
    mc.assert_tree()
    ensure_user_ts()
    print(json.dumps(table(TABLE_STATES, TABLE_MENU)))
