"""C13 - every registered model obeys the structural model contract.

Exhaustive grid over registered models (shipped, the installed plug-in,
three harness-defined models incl. a deliberately order-sensitive one) x
parameter grid x abscissa arrays of either orientation x translations x
baseline shifts x modulus scales."""
import json
import os
import subprocess
import sys
import types

import numpy as np

from .. import canon as cn
from .. import grid, VERIF_ROOT
from ..core import Report, V

PROP = "C13"
LEVEL = "exploration"

ORDER_SENSITIVE_SRC = '''
import lmfit
import numpy as np


def get_parameter_defaults():
    params = lmfit.Parameters()
    params.add("E", value=3e3, min=0)
    params.add("R", value=10e-6, min=0, vary=False)
    params.add("contact_point", value=0)
    params.add("baseline", value=0)
    return params


def verif_order(delta, E, R, contact_point=0, baseline=0):
    """Power law whose implementation is only correct for approach-ordered
    (descending) abscissa: the contact is located with searchsorted."""
    neg = -np.asarray(delta)          # ascending iff delta is descending
    idx = np.searchsorted(neg, -contact_point, side="right")
    out = np.zeros_like(delta, dtype=float)
    out[idx:] = E * np.sqrt(R) * (contact_point - delta[idx:]) ** 1.5
    # an index ramp makes any missing re-reversal of the result visible
    return out + baseline + 0 * np.arange(delta.size)


model_doc = verif_order.__doc__
model_func = verif_order
model_key = "verif_order"
model_name = "verif order sensitive"
parameter_keys = ["E", "R", "contact_point", "baseline"]
parameter_names = ["Young's Modulus", "Tip Radius", "Contact Point",
                   "Force Baseline"]
parameter_units = ["Pa", "m", "m", "N"]
valid_axes_x = ["tip position"]
valid_axes_y = ["force"]
'''

ANC_SRC = ORDER_SENSITIVE_SRC.replace("verif_order", "verif_anc") + '''

def compute_ancillaries(idnt):
    return {"E": 1234.0, "extra": float("nan")}


parameter_anc_keys = ["E", "extra"]
parameter_anc_names = ["anc E", "anc extra"]
parameter_anc_units = ["Pa", ""]
'''

EXPR_SRC = '''
import lmfit
import numpy as np


def get_parameter_defaults():
    params = lmfit.Parameters()
    params.add("E", value=3e3, min=0)
    params.add("E2", expr="2*E")
    params.add("contact_point", value=0)
    params.add("baseline", value=0)
    return params


def verif_expr(delta, E, E2, contact_point=0, baseline=0):
    """two moduli, the second tied to the first by an expression"""
    root = contact_point - delta
    pos = root > 0
    bb = np.zeros_like(delta)
    bb[pos] = root[pos] ** 2
    return (E + E2) * bb + baseline


model_doc = verif_expr.__doc__
model_func = verif_expr
model_key = "verif_expr"
model_name = "verif expr"
parameter_keys = ["E", "E2", "contact_point", "baseline"]
parameter_names = ["Young's Modulus", "Second Modulus", "Contact Point",
                   "Force Baseline"]
parameter_units = ["Pa", "Pa", "m", "N"]
valid_axes_x = ["tip position"]
valid_axes_y = ["force"]
'''

#: the model function takes its parameters in another order than
#: `parameter_keys` lists them (legitimate: they are passed by keyword; the
#: registry only warns) / as keyword-only arguments
REORDERED_SRC = '''
import lmfit
import numpy as np


def get_parameter_defaults():
    params = lmfit.Parameters()
    params.add("E", value=3e3, min=0)
    params.add("R", value=10e-6, min=0, vary=False)
    params.add("contact_point", value=0)
    params.add("baseline", value=0)
    return params


def verif_reord(delta, R, baseline=0, contact_point=0, E=3e3):
    """paraboloid; arguments in an order of their own"""
    root = contact_point - delta
    pos = root > 0
    out = np.zeros_like(delta, dtype=float)
    out[pos] = E * np.sqrt(R) * root[pos] ** 1.5
    return out + baseline


model_doc = verif_reord.__doc__
model_func = verif_reord
model_key = "verif_reord"
model_name = "verif reordered arguments"
parameter_keys = ["E", "R", "contact_point", "baseline"]
parameter_names = ["Young's Modulus", "Tip Radius", "Contact Point",
                   "Force Baseline"]
parameter_units = ["Pa", "m", "m", "N"]
valid_axes_x = ["tip position"]
valid_axes_y = ["force"]
'''

KWONLY_SRC = REORDERED_SRC.replace("verif_reord", "verif_kwonly").replace(
    "def verif_kwonly(delta, R, baseline=0, contact_point=0, E=3e3):",
    "def verif_kwonly(delta, *, E, R, contact_point=0, baseline=0):")

#: a chain of expressions (stiff depends on E_red depends on E), and a
#: model function that lists the dependent parameter first
CHAIN_SRC = '''
import lmfit
import numpy as np


def get_parameter_defaults():
    params = lmfit.Parameters()
    params.add("E", value=3e3, min=0)
    params.add("nu", value=0.5, vary=False)
    params.add("R", value=10e-6, min=0, vary=False)
    params.add("E_red", expr="E/(1-nu**2)")
    params.add("stiff", expr="4/3*E_red*sqrt(R)")
    params.add("contact_point", value=0)
    params.add("baseline", value=0)
    return params


def verif_chain(delta, stiff, E_red, E, nu, R, contact_point=0, baseline=0):
    """paraboloid written with a derived stiffness"""
    root = contact_point - delta
    pos = root > 0
    out = np.zeros_like(delta, dtype=float)
    out[pos] = stiff * root[pos] ** 1.5
    return out + baseline


model_doc = verif_chain.__doc__
model_func = verif_chain
model_key = "verif_chain"
model_name = "verif chained expressions"
parameter_keys = ["E", "nu", "R", "E_red", "stiff", "contact_point",
                  "baseline"]
parameter_names = ["Young's Modulus", "Poisson's Ratio", "Tip Radius",
                   "Reduced Modulus", "Stiffness", "Contact Point",
                   "Force Baseline"]
parameter_units = ["Pa", "", "m", "Pa", "Pa m^0.5", "m", "N"]
valid_axes_x = ["tip position"]
valid_axes_y = ["force"]
'''

HARNESS_MODELS = {"verif_order": ORDER_SENSITIVE_SRC, "verif_anc": ANC_SRC,
                  "verif_expr": EXPR_SRC, "verif_reord": REORDERED_SRC,
                  "verif_kwonly": KWONLY_SRC, "verif_chain": CHAIN_SRC}
MODULI = {"hertz_para": ["E"], "hertz_cone": ["E"], "hertz_pyr3s": ["E"],
          "sneddon_spher_approx": ["E"], "sneddon_spher": ["E"],
          "power_layer_clifford_2009": ["E_S", "E_L"],
          "verif_order": ["E"], "verif_anc": ["E"], "verif_expr": ["E"],
          "verif_reord": ["E"], "verif_kwonly": ["E"], "verif_chain": ["E"]}
PLUGIN = "sneddon_spher"


def register_harness_models():
    from nanite.model import logic
    for key, src in HARNESS_MODELS.items():
        if key not in logic.models_available:
            mod = types.ModuleType("verif_c13_" + key)
            exec(compile(src, mod.__name__, "exec"), mod.__dict__)
            logic.register_model(mod)


def param_cells(mk, tier="quick"):
    from nanite import model as nmodel
    P = nmodel.models_available[mk].get_parameter_defaults()
    base = {n: P[n].value for n in P if not P[n].expr}
    cells = []
    Es = (300.0, 3e3, 3e5) if tier == "quick" else \
        (30.0, 300.0, 3e3, 3e4, 3e5)
    cps = (0.0, 2e-7) if tier == "quick" else (0.0, 2e-7, -5e-7, 1e-6)
    bs = (0.0, 1e-10) if tier == "quick" else (0.0, 1e-10, -2e-9)
    for E in Es:
        for cp in cps:
            for b in bs:
                c = dict(base)
                for m in MODULI.get(mk, ["E"]):
                    c[m] = E * (1 if m != "E_L" else 5e-4)
                c["contact_point"] = cp
                c["baseline"] = b
                cells.append(c)
    if "R" in base:
        # tip radii in the nm range (sharp probes) are inside the bounds
        for R in (5e-8, 2e-8):
            for cp in cps[:2]:
                c = dict(cells[len(cells) // 2])
                c["R"] = R
                c["contact_point"] = cp
                cells.append(c)
    return cells


def abscissae(cp, R):
    desc = cp - np.linspace(-3e-7, 8e-7, 45)
    return {
        "descending": desc,
        "ascending": desc[::-1].copy(),
        "repeated-ends": np.concatenate([[desc[0]], desc, [desc[-1]]]),
        "len2": np.array([cp + 1e-7, cp - 2e-7]),
        "len3": np.array([cp + 1e-7, cp - 1e-7, cp - 2e-7]),
        "long": cp - np.linspace(-1e-6, min(R, 2e-6), 900),
        # the whole range of depths the monotonicity clause is about,
        # whatever the radius is
        "upto-R": cp - np.linspace(-0.05 * R, R, 700),
        # measured abscissae are noisy: clearly oriented, but the first
        # (and last) two samples are locally out of order
        "descending-noisy-ends": _swap_ends(desc),
        "ascending-noisy-ends": _swap_ends(desc[::-1].copy()),
        # ... and the samples next to the contact point are (a tip that
        # snaps in and comes free again, position noise above the step)
        "descending-noisy-contact": _swap_contact(desc, cp),
        "ascending-noisy-contact": _swap_contact(desc, cp)[::-1].copy(),
    }


def _swap_contact(desc, cp):
    a = desc.copy()
    i = int(np.argmax(a < cp))      # first indented sample
    a[i - 1], a[i + 1] = a[i + 1], a[i - 1]
    return a


def _swap_ends(a):
    a = a.copy()
    a[0], a[1] = a[1], a[0]
    a[-1], a[-2] = a[-2], a[-1]
    return a


def make_params(mk, values):
    from nanite import model as nmodel
    P = nmodel.models_available[mk].get_parameter_defaults()
    for k, v in values.items():
        if not P[k].expr:
            P[k].set(value=v)
    return P


def ulp(x):
    return np.spacing(np.abs(x))


def contract_case(case):
    """a registered model that cannot be evaluated at all breaks every
    clause: reported, not a harness crash"""
    try:
        return _contract_case(case)
    except BaseException as e:
        if isinstance(e, (KeyboardInterrupt, SystemExit, MemoryError,
                          RuntimeError)):
            raise
        import traceback
        where = traceback.extract_tb(e.__traceback__)[-1]
        return [V(PROP, "model-raises", site=case["model"],
                  witness=type(e).__name__, detail=f"evaluating the "
                  f"registered model raised {e!r} (in {where.name}, "
                  f"{where.filename.split('/')[-1]}:{where.lineno})",
                  case=case, kind="grid")], ("raises", case["model"])


def _contract_case(case):
    from nanite import model as nmodel
    register_harness_models()
    mk = case["model"]
    md = nmodel.models_available[mk]
    vals = case["params"]
    cp, b = vals["contact_point"], vals["baseline"]
    R = vals.get("R", 1e-5)
    out = []
    shipped = not mk.startswith("verif_")

    def viol(clause, wit, detail):
        out.append(V(PROP, clause, site=mk, witness=wit, detail=detail,
                     case=case, kind="grid"))
    for aname, x in abscissae(cp, R).items():
        if "noisy-contact" in aname and not shipped:
            # (the harness's own models locate the contact with a sorted
            # search - they are only defined for ordered samples there)
            continue
        P = make_params(mk, vals)
        pd, xd = cn.digest(P.valuesdict()), cn.digest(x)
        F = md.model(P, x)
        if cn.digest(P.valuesdict()) != pd or cn.digest(x) != xd:
            viol("input-mutated", aname, "model() modified its inputs")
        if np.shape(F) != x.shape:
            viol("shape-order", aname, f"output shape {np.shape(F)} for "
                 f"input shape {x.shape}")
            continue
        Frev = md.model(make_params(mk, vals), x[::-1].copy())
        if not np.array_equal(Frev[::-1], F):
            viol("orientation", aname, "model(x[::-1]) != model(x)[::-1]: "
                 f"max |d| = {np.max(np.abs(Frev[::-1] - F)):.3e}")
        scale = np.max(np.abs(F - b)) + abs(b) + 1e-300
        if shipped and "noisy" in aname:
            # the shipped models are functions of the depth: every sample
            # gets the force that belongs to its own abscissa value
            perm = np.argsort(-x, kind="stable")
            Fsorted = md.model(make_params(mk, vals), x[perm].copy())
            if not np.array_equal(F[perm], Fsorted):
                viol("shape-order", aname + ":pointwise", "samples do not "
                     "get the force of their own abscissa value: max |d| = "
                     f"{np.max(np.abs(F[perm] - Fsorted)):.3e}")
        # translation covariance
        for s in (2.0 ** -20, -(2.0 ** -20), 1e-7):
            v2 = dict(vals, contact_point=cp + s)
            Fs = md.model(make_params(mk, v2), x + s)
            exact = np.array_equal((x + s) - s, x) and (cp + s) - s == cp \
                and np.array_equal((cp + s) - (x + s), cp - x)
            tol = 0 if exact else 1e-9 * scale
            if not np.max(np.abs(Fs - F)) <= tol:
                viol("translation", f"{aname}:s={s}", "shifting abscissa "
                     "and contact point together changes the force by "
                     f"{np.max(np.abs(Fs - F)):.3e} (tol {tol:.1e})")
        # baseline additivity
        for db in (1e-10, -3e-9):
            Fb = md.model(make_params(mk, dict(vals, baseline=b + db)), x)
            if not np.max(np.abs(Fb - (F + db))) <= 4 * np.max(
                    ulp(np.abs(F) + abs(db))):
                viol("baseline-additive", f"{aname}:db={db}",
                     f"max dev {np.max(np.abs(Fb - (F + db))):.3e}")
        # linear in the moduli
        # (also very small factors: moduli in other units, e.g. N/um^2)
        for c in (2.0, 0.5, 3.7, 2.0 ** -40, 1e-12):
            v2 = dict(vals)
            for m in MODULI.get(mk, ["E"]):
                v2[m] = vals[m] * c
            Fc = md.model(make_params(mk, v2), x)
            dev = np.abs((Fc - b) - c * (F - b))
            tol = 8 * ulp(np.abs(b) + c * np.abs(F - b) + np.abs(F))
            if c in (2.0, 0.5, 2.0 ** -40) and b == 0:
                tol = np.zeros_like(dev)       # exact for powers of two
            if not np.all(dev <= tol):
                viol("modulus-linear", f"{aname}:c={c}", f"(F-b) does not "
                     f"scale by {c}: max dev {np.max(dev):.3e}")
        # continuity at contact / exact baseline out of contact
        if aname == "descending":
            depth = 8e-7
            prev = None
            for j in range(4, 44, 4):
                eps = depth * 2.0 ** -j
                Fe = md.model(make_params(mk, vals),
                              np.array([cp + 1e-7, cp - eps]))[1] - b
                if prev is not None and not (abs(Fe) <= abs(prev) + 1e-300):
                    viol("contact-continuous", f"eps=2^-{j}",
                         f"|F-b| grows towards the contact point: {Fe!r} "
                         f"after {prev!r}")
                prev = Fe
            if prev is not None and not abs(prev) <= 1e-9 * scale:
                viol("contact-continuous", "limit", f"F-b at depth "
                     f"{depth * 2.0 ** -40:.1e} m is still {prev!r}")
            F0 = md.model(make_params(mk, vals),
                          np.array([cp + 1e-7, cp, cp + 1e-12]))
            if not np.all(F0 == b):
                viol("contact-continuous", "out-of-contact", "force != "
                     f"baseline at and before contact: {F0 - b}")
        # non-decreasing with indentation depth up to the tip radius
        if shipped and aname in ("long", "upto-R"):
            sel = (cp - x >= 0) & (cp - x <= R)
            Fd = F[sel]
            if np.any(np.diff(Fd) < -4 * ulp(np.abs(Fd[1:]))):
                viol("monotonic", aname, "force decreases with indentation "
                     "depth within [0, R]")
        # default residual wrapper == (data - model) * weights
        y = F + np.linspace(-1, 1, x.size) * 1e-11
        for w in (0, 5e-7, 2e-7):
            yd = cn.digest(y)
            r = md.residual(make_params(mk, vals), x, y, w)
            if cn.digest(y) != yd:
                viol("input-mutated", f"{aname}:residual", "force array "
                     "modified by residual()")
            wt = np.ones_like(x) if not w else \
                np.minimum(1.0, np.abs(x - cp) / w)
            exp = (y - F) * wt
            if not np.max(np.abs(r - exp)) <= 4 * np.max(
                    ulp(np.abs(exp)) + 5e-324):
                viol("default-residual", f"{aname}:w={w}",
                     f"max dev {np.max(np.abs(r - exp)):.3e}")
    return out, ("model", mk)


def order_case(case):
    """the user's function always sees approach-ordered data: the
    order-sensitive harness model gives its reference values for either
    orientation, through model(), residual() and a complete fit"""
    from nanite import model as nmodel
    from .. import synth
    register_harness_models()
    out = []
    md = nmodel.models_available["verif_order"]
    P = md.get_parameter_defaults()
    P["contact_point"].set(value=case["cp"])
    x = case["cp"] - np.linspace(-3e-7, 8e-7, case["n"])
    ref = np.where(case["cp"] - x > 0,
                   3e3 * np.sqrt(10e-6)
                   * np.clip(case["cp"] - x, 0, None) ** 1.5, 0.0)
    for name, xx, rr in (("descending", x, ref),
                         ("ascending", x[::-1].copy(), ref[::-1])):
        F = md.model(P, xx)
        if not np.allclose(F, rr, rtol=1e-12, atol=0):
            out.append(V(PROP, "orientation", site="verif_order",
                         witness=name, detail="order-sensitive user model "
                         f"evaluates wrongly for {name} abscissa: max dev "
                         f"{np.max(np.abs(F - rr)):.3e} (it did not receive "
                         "approach-ordered data, or the result was not "
                         "reversed back)", case=case, kind="order"))
    # a complete fit on the retract segment (ascending abscissa)
    tr = {"E": 3000.0, "R": 10e-6, "contact_point": case["cp"],
          "baseline": 0.0}
    # (generated with the order-insensitive closed form)
    n = case["n"]
    xa = np.linspace(case["cp"] + 1e-6, case["cp"] - 8e-7, n)
    xx = np.concatenate([xa, xa[::-1][1:]])
    ff = 3000.0 * np.sqrt(10e-6) * np.clip(case["cp"] - xx, 0, None) ** 1.5
    from nanite.indent import Indentation
    c = Indentation(
        data={"force": ff, "tip position": xx,
              "segment": np.concatenate([np.zeros(n, np.uint8),
                                         np.ones(n - 1, np.uint8)]),
              "time": np.arange(xx.size) * 1e-3,
              "height (measured)": xx - ff / 0.05},
        metadata={"path": "/verif/scratch/order.h5", "enum": 0,
                  "spring constant": 0.05, "imaging mode": "force-distance",
                  "point count": xx.size})
    for seg in (0, 1):
        c.fit_model(model_key="verif_order", segment=seg, weight_cp=0,
                    params_initial=None)
        pf = c.fit_properties.get("params_fitted")
        if pf is None or not abs(pf["E"].value / 3000.0 - 1) <= 1e-6:
            out.append(V(PROP, "orientation", site="verif_order",
                         witness=f"fit-segment-{seg}", detail="fit of the "
                         "order-sensitive model does not recover E on "
                         f"segment {seg}: {pf and pf['E'].value}",
                         case=case, kind="order"))
    return out, ("order", case["n"])


def reregister_case(case):
    """a key that is registered again (model development: edit, reload)
    must serve the *new* function through the default wrappers"""
    from nanite.model import logic
    out = []
    mods = []
    for factor in case["factors"]:
        src = ORDER_SENSITIVE_SRC.replace("verif_order", "verif_rereg") \
            .replace("out[idx:] = E *", f"out[idx:] = {factor} * E *")
        mod = types.ModuleType(f"verif_c13_rereg_{factor}")
        exec(compile(src, mod.__name__, "exec"), mod.__dict__)
        mods.append(mod)
    x = np.linspace(5e-7, -8e-7, 40)
    try:
        for i, (mod, factor) in enumerate(zip(mods, case["factors"])):
            if case["deregister"] and i > 0:
                logic.deregister_model(logic.models_available["verif_rereg"])
            md = logic.register_model(mod)
            P = md.get_parameter_defaults()
            ref = np.where(-x > 0, factor * 3e3 * np.sqrt(10e-6)
                           * np.clip(-x, 0, None) ** 1.5, 0.0)
            for name, xx, rr in (("descending", x, ref),
                                 ("ascending", x[::-1].copy(), ref[::-1])):
                for which, md_i in (("returned", md), (
                        "registry", logic.models_available["verif_rereg"])):
                    F = md_i.model(P, xx)
                    r = md_i.residual(P, xx, rr.copy(), 0)
                    if not np.allclose(F, rr, rtol=1e-12, atol=0) or \
                            not np.max(np.abs(r)) <= 1e-12 * np.max(
                                np.abs(rr)):
                        out.append(V(
                            PROP, "orientation", site="re-registered-key",
                            witness=f"registration#{i + 1}:{which}:{name}",
                            detail="the model registered last under this "
                            "key does not evaluate its own function "
                            f"(factor {factor}): max dev "
                            f"{np.max(np.abs(F - rr)):.3e}", case=case,
                            kind="rereg"))
    finally:
        logic.models_available.pop("verif_rereg", None)
    return out, ("rereg", len(case["factors"]))


def plugin_child():
    """contract of the compiled plug-in, run in a child process"""
    import mc
    mc.assert_tree()
    from nanite import model as nmodel
    res = []
    if PLUGIN not in nmodel.models_available:
        print(json.dumps({"available": False}))
        return
    md = nmodel.models_available[PLUGIN]
    P = md.get_parameter_defaults()
    cp = 1e-7
    P["contact_point"].set(value=cp)
    x = cp - np.linspace(-3e-7, 8e-7, 45)
    x = x[np.abs(cp - x) >= 1e-12]      # depths >= 1 pm only (O9)
    F = md.model(P, x)
    Fr = md.model(P, x[::-1].copy())
    res.append(["shape-order", bool(F.shape == x.shape)])
    res.append(["orientation", bool(np.array_equal(Fr[::-1], F))])
    P2 = md.get_parameter_defaults()
    P2["contact_point"].set(value=cp)
    P2["baseline"].set(value=1e-10)
    res.append(["baseline-additive",
                bool(np.allclose(md.model(P2, x), F + 1e-10, rtol=1e-12,
                                 atol=1e-24))])
    P3 = md.get_parameter_defaults()
    P3["contact_point"].set(value=cp)
    P3["E"].set(value=P["E"].value * 2)
    res.append(["modulus-linear",
                bool(np.allclose(md.model(P3, x), 2 * F, rtol=1e-9))])
    sel = cp - x > 0
    res.append(["monotonic", bool(np.all(np.diff(F[sel]) >= 0))])
    print(json.dumps({"available": True, "results": res}))


def plugin_part(rep):
    try:
        p = subprocess.run([sys.executable, "-m", "mc.props.c13",
                            "--plugin"], cwd=VERIF_ROOT, capture_output=True,
                           text=True, timeout=120)
    except subprocess.TimeoutExpired:
        rep.set("plugin", "undecided: the compiled plug-in did not return "
                "within 120 s (not nanite's tree, DESIGN O9)")
        return
    if p.returncode != 0:
        rep.set("plugin", "undecided: child failed: " + p.stderr[-300:])
        return
    doc = json.loads(p.stdout.strip().splitlines()[-1])
    rep.set("plugin", doc)
    for clause, ok in doc.get("results", []):
        rep.add("evaluations")
        if not ok:
            rep.violate(V(PROP, clause, site=PLUGIN, witness="plug-in",
                          detail=f"registered plug-in model violates {clause}",
                          case={"kind": "plugin"}, kind="plugin"))


def cases(tier):
    from nanite import model as nmodel
    register_harness_models()
    out = []
    for mk in sorted(nmodel.models_available):
        if mk == PLUGIN:
            continue
        for pc in param_cells(mk, tier):
            out.append({"kind": "grid", "model": mk, "params": pc})
    return out


def replay(doc):
    if doc.get("kind") == "grid":
        return contract_case(doc["case"])[0]
    if doc.get("kind") == "order":
        return order_case(doc["case"])[0]
    if doc.get("kind") == "rereg":
        return reregister_case(doc["case"])[0]
    rep = Report(PROP, "quick", LEVEL)
    plugin_part(rep)
    return rep.violations


def run(tier):
    rep = Report(PROP, tier, LEVEL)
    cs = cases(tier)
    cl = grid.run_cases(rep, __name__, "contract_case", cs, chunk=4,
                        label="contract_cells")
    oc = [{"kind": "order", "cp": cp, "n": n}
          for cp in (0.0, 2e-7, -1e-7) for n in (30, 101, 400)]
    cl2 = grid.run_cases(rep, __name__, "order_case", oc, chunk=2,
                         label="order_cells")
    rc = [{"kind": "rereg", "factors": list(f), "deregister": d}
          for f in ((1.0, 2.0), (2.0, 1.0), (1.0, 2.0, 3.0), (1.0, 1.0))
          for d in (False, True)]
    grid.run_cases(rep, __name__, "reregister_case", rc, chunk=1,
                   label="reregistration_cells")
    plugin_part(rep)
    rep.set("models", sorted({k[1] for k in cl}))
    rep.set("distinct_nontrivial", len(cs) + len(oc))
    rep.set("rule", "every registered model x 12 parameter cells x 6 "
            "abscissa arrays x {3 translations, 2 baseline shifts, 3 modulus "
            "scales, continuity ladder, 3 weighting distances}; every cell "
            "has points in contact, so each is non-trivial")
    rep.set("exhaustive", True)
    rep.sample(cs[0])
    rep.sample(oc[0])
    rep.assumptions += [
        "linearity in the moduli is bit-exact only for zero baseline and "
        "dyadic factors; otherwise 8 ulp of the summed magnitudes",
        "the compiled exact-sphere plug-in is evaluated in a child process "
        "under a watchdog on depths >= 1 pm; a hang is 'undecided', never a "
        "violation of nanite",
    ]
    return rep


if __name__ == "__main__":
    plugin_child()
