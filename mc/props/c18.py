"""C18 - model registry accepts only complete, consistent models and stays
consistent.  STORE closure search over register/deregister/load calls
against a dict reference; complete enumeration of single-fault mutants of
a valid model module; loader fault list; ancillary dictionaries."""
import itertools
import collections
import copy
import os
import shutil
import sys
import tempfile
import types

import numpy as np

from .. import canon as cn
from .. import synth, VERIF_ROOT
from ..core import Report, V

PROP = "C18"
LEVEL = "model_checking"

SRC = '''
import lmfit
import numpy as np


def get_parameter_defaults():
    params = lmfit.Parameters()
    params.add("E", value=3e3, min=0)
    params.add("R", value=10e-6, min=0, vary=False)
    params.add("contact_point", value=0)
    params.add("baseline", value=0)
    return params


def verif_model(delta, E, R, contact_point=0, baseline=0):
    """harness model"""
    root = contact_point - delta
    pos = root > 0
    bb = np.zeros_like(delta)
    bb[pos] = root[pos]**2
    return FACTOR * E * R * bb + baseline


FACTOR = {factor}
model_doc = verif_model.__doc__
model_func = verif_model
model_key = "{key}"
model_name = "verif model {key}"
parameter_keys = ["E", "R", "contact_point", "baseline"]
parameter_names = ["Young's Modulus", "Tip Radius", "Contact Point",
                   "Force Baseline"]
parameter_units = ["Pa", "m", "m", "N"]
valid_axes_x = ["tip position"]
valid_axes_y = ["force"]
'''

ANC_SRC = '''

ANC_VALUES = {anc}


def compute_ancillaries(idnt):
    return dict(ANC_VALUES)


parameter_anc_keys = list(ANC_VALUES.keys())
parameter_anc_names = ["anc " + k for k in ANC_VALUES]
parameter_anc_units = ["u" for k in ANC_VALUES]
'''

REQUIRED = ["get_parameter_defaults", "model_doc", "model_func", "model_key",
            "model_name", "parameter_keys", "parameter_names",
            "parameter_units", "valid_axes_x", "valid_axes_y"]
ANC_REQUIRED = ["parameter_anc_keys", "parameter_anc_names",
                "parameter_anc_units"]


def make_module(key, factor, anc=None, modname=None):
    src = SRC.format(key=key, factor=factor)
    if anc is not None:
        src += ANC_SRC.format(anc=repr(anc).replace("nan", "float('nan')"))
    mod = types.ModuleType(modname or f"verif_mod_{key}_{factor}")
    exec(compile(src, mod.__name__, "exec"), mod.__dict__)
    return mod, src


def formula_id(md):
    """identifies the model function behind a registered model"""
    P = md.get_parameter_defaults()
    x = np.array([1e-6, 0.0, -1e-6, -2e-6])
    return cn.digest(md.model(P, x))


class Registry:
    """snapshot / restore of the process-global registry state"""

    def __enter__(self):
        from nanite.model import logic
        self.logic = logic
        self.saved = dict(logic.models_available)
        self.path = list(sys.path)
        self.mods = set(sys.modules)
        self.dwb = sys.dont_write_bytecode
        return self

    def __exit__(self, *exc):
        self.logic.models_available.clear()
        self.logic.models_available.update(self.saved)
        sys.path[:] = self.path
        for m in set(sys.modules) - self.mods:
            del sys.modules[m]
        sys.dont_write_bytecode = self.dwb
        return False


def model_error_classes():
    from nanite.model import core
    return core.ModelError


# ------------------------------------------------------------ (i) closure

def closure_part(rep, tmp):
    from nanite import model as nmodel
    from nanite.model import logic, NaniteFitModel
    M1, s1 = make_module("vk1", 1.0)
    M1p, s1p = make_module("vk1", 2.0)
    M2, s2 = make_module("vk2", 3.0)
    files = {}
    for nm, src in (("vfile_a", s1), ("vfile_ap", s1p), ("vfile_b", s2)):
        p = os.path.join(tmp, nm + ".py")
        open(p, "w").write(src)
        files[nm] = p
    fid = {}
    for nm, M in (("M1", M1), ("M1p", M1p), ("M2", M2)):
        # reference: the module's own function, evaluated directly
        P = M.get_parameter_defaults()
        xx = np.array([1e-6, 0.0, -1e-6, -2e-6])
        fid[nm] = cn.digest(M.model_func(xx, **P.valuesdict()))
    KEY = {"M1": "vk1", "M1p": "vk1", "M2": "vk2",
           "vfile_a": "vk1", "vfile_ap": "vk1", "vfile_b": "vk2"}
    FORM = {"M1": fid["M1"], "M1p": fid["M1p"], "M2": fid["M2"],
            "vfile_a": fid["M1"], "vfile_ap": fid["M1p"],
            "vfile_b": fid["M2"]}
    MODS = {"M1": M1, "M1p": M1p, "M2": M2}
    ops = [("register", m) for m in MODS] + \
          [("register_obj", m) for m in MODS] + \
          [("deregister", m) for m in MODS] + \
          [("load", f, r) for f in files for r in (False, True)]
    shipped = None
    seen = {(): []}
    frontier = collections.deque([()])
    ntr = 0

    def build(state):
        """reconstruct registry state: tuple of (key, formula source)"""
        for key, src in state:
            logic.register_model(MODS[src] if src in MODS
                                 else _load(files[src]))

    def _load(path):
        return logic.load_model_from_file(path, register=False).module

    while frontier:
        st = frontier.popleft()
        for op in ops:
            with Registry() as reg:
                shipped = set(reg.saved)
                build(st)
                ref = dict(st)
                path0 = list(sys.path)
                case = {"kind": "closure", "state": [list(x) for x in st],
                        "op": list(op)}
                wit = f"{op}"
                exc = None
                try:
                    if op[0] == "register":
                        logic.register_model(MODS[op[1]])
                        ref[KEY[op[1]]] = op[1]
                    elif op[0] == "register_obj":
                        logic.register_model(NaniteFitModel(MODS[op[1]]))
                        ref[KEY[op[1]]] = op[1]
                    elif op[0] == "deregister":
                        want_err = KEY[op[1]] not in ref
                        ref.pop(KEY[op[1]], None)
                        try:
                            logic.deregister_model(
                                NaniteFitModel(MODS[op[1]]))
                            if want_err:
                                pass   # tolerated: removing an absent key
                        except KeyError:
                            if not want_err:
                                raise
                    elif op[0] == "load":
                        md = logic.load_model_from_file(files[op[1]],
                                                        register=op[2])
                        if formula_id(md) != FORM[op[1]]:
                            rep.violate(V(
                                PROP, "file-differs", site="load",
                                witness=wit, detail="the loaded model does "
                                "not evaluate like the code in the file",
                                case=case, kind="closure"))
                        if op[2]:
                            ref[KEY[op[1]]] = op[1]
                except BaseException as e:
                    if isinstance(e, (KeyboardInterrupt, SystemExit)):
                        raise
                    exc = e
                    rep.violate(V(PROP, "registry-raises", site=op[0],
                                  witness=wit, detail=repr(e), case=case,
                                  kind="closure"))
                ntr += 1
                got_keys = set(logic.models_available) - shipped
                if got_keys != set(ref) or \
                        not shipped <= set(logic.models_available):
                    rep.violate(V(
                        PROP, "registry-mismatch", site=op[0], witness=wit,
                        detail=f"harness keys registered {sorted(got_keys)}"
                        f", reference {sorted(ref)}; shipped models missing:"
                        f" {sorted(shipped - set(logic.models_available))}",
                        case=case, kind="closure"))
                else:
                    for k, src in ref.items():
                        if formula_id(logic.models_available[k]) != FORM[src]:
                            rep.violate(V(
                                PROP, "registry-mismatch", site=op[0],
                                witness=wit, detail=f"key {k} does not hold "
                                f"the model registered last ({src})",
                                case=case, kind="closure"))
                        _check_defaults(rep, logic.models_available[k], case,
                                        wit)
                if sys.path != path0:
                    rep.violate(V(PROP, "syspath-changed", site=op[0],
                                  witness=wit, detail="sys.path changed",
                                  case=case, kind="closure"))
                nxt = tuple(sorted(ref.items()))
            if exc is None and nxt not in seen:
                seen[nxt] = list(op)
                frontier.append(nxt)
    rep.add("states", len(seen))
    rep.add("transitions", ntr)
    rep.add("traces_validated_against_impl", ntr)
    rep.set("registry_closure", {"states": len(seen), "ops": len(ops),
                                 "closed": True})
    rep.sample({"closure_state": [list(x) for x in sorted(seen)[-1]],
                "op": list(ops[-1])})


def handle_part(rep, depth=4):
    """one module object under development: registered, given another key,
    registered again, and the models it was registered as deregistered
    through the objects `register_model` returned - every sequence up to
    the depth; deregistering removes exactly the key of that registration"""
    from nanite.model import logic
    ops = [("reg",), ("rekey", "vkA"), ("rekey", "vkB"), ("dereg", 0),
           ("dereg", 1)]
    nseq = ntr = 0
    for n in range(1, depth + 1):
        for seq in itertools.product(ops, repeat=n):
            nreg = 0
            ok = True
            for op in seq:
                if op[0] == "dereg" and op[1] >= nreg:
                    ok = False
                    break
                nreg += op[0] == "reg"
            if not ok or seq[-1][0] == "rekey":
                continue
            nseq += 1
            with Registry() as reg:
                shipped = set(reg.saved)
                M, _ = make_module("vkA", 1.0)
                handles, ref = [], set()
                case = {"kind": "handle", "seq": [list(o) for o in seq]}
                for i, op in enumerate(seq):
                    ntr += 1
                    try:
                        if op[0] == "reg":
                            handles.append((logic.register_model(M),
                                            M.model_key))
                            ref.add(M.model_key)
                        elif op[0] == "rekey":
                            M.model_key = op[1]
                        else:
                            h, key = handles[op[1]]
                            gone = key not in ref
                            ref.discard(key)
                            try:
                                logic.deregister_model(h)
                            except KeyError:
                                if not gone:
                                    raise
                    except BaseException as e:
                        if isinstance(e, (KeyboardInterrupt, SystemExit,
                                          MemoryError)):
                            raise
                        rep.violate(V(PROP, "registry-raises",
                                      site="handle:" + op[0],
                                      witness=f"step{i}", detail=repr(e),
                                      case=case, kind="handle"))
                        break
                    got = set(logic.models_available) - shipped
                    if got != ref or not shipped <= set(
                            logic.models_available):
                        rep.violate(V(
                            PROP, "registry-mismatch", site="handle:" + op[0],
                            witness=f"step{i}", detail="harness keys "
                            f"registered {sorted(got)}, reference "
                            f"{sorted(ref)} after {list(seq[:i + 1])}",
                            case=case, kind="handle"))
                        break
    rep.add("transitions", ntr)
    rep.add("traces_validated_against_impl", ntr)
    rep.set("handle_sequences", nseq)


def _check_defaults(rep, md, case, wit):
    """documented defaults of a registered model"""
    from nanite.model import residuals
    ok = callable(md.model) and callable(md.residual)
    P = md.get_parameter_defaults()
    x = np.linspace(1e-6, -1e-6, 21)
    y = np.linspace(0, 1e-9, 21)
    w = 5e-7
    try:
        r = md.residual(P, x, y, w)
        m = md.model(P, x)
        wt = np.minimum(1, np.abs(x - P["contact_point"].value) / w)
        ok = ok and np.allclose(r, (y - m) * wt, rtol=1e-12, atol=0)
        names = [md.get_parm_name(k) for k in md.parameter_keys]
        units = [md.get_parm_unit(k) for k in md.parameter_keys]
        ok = ok and names == list(md.parameter_names) \
            and units == list(md.parameter_units)
        anc = md.get_anc_parm_keys()
        want = ["max_indent"] + (list(md.parameter_anc_keys)
                                 if md.has_module_ancillaries else [])
        ok = ok and anc == want
    except BaseException as e:
        if isinstance(e, (KeyboardInterrupt, SystemExit)):
            raise
        ok = False
    if not ok:
        rep.violate(V(PROP, "defaults", site="register", witness=wit,
                      detail="default wrappers / names / units / ancillary "
                      "keys are not the documented ones", case=case,
                      kind="closure"))


# ------------------------------------------------------------ (ii) mutants

def mutants():
    """all single-fault mutants (name, mutate(module))"""
    muts = []
    for a in REQUIRED:
        muts.append((f"delete:{a}", lambda m, a=a: delattr(m, a), False))
    for a in ANC_REQUIRED:
        muts.append((f"delete:{a}", lambda m, a=a: delattr(m, a), True))
    for lst in ("parameter_keys", "parameter_names", "parameter_units"):
        muts.append((f"shorter:{lst}",
                     lambda m, l=lst: setattr(m, l, getattr(m, l)[:-1]),
                     False))
        muts.append((f"longer:{lst}",
                     lambda m, l=lst: setattr(m, l, getattr(m, l) + ["x"]),
                     False))
    muts.append(("duplicate-name",
                 lambda m: setattr(m, "parameter_names",
                                   [m.parameter_names[0]]
                                   + m.parameter_names[:1]
                                   + m.parameter_names[2:]), False))
    for i, j in ((0, 1), (1, 2), (2, 3), (0, 3)):
        def swap(m, i=i, j=j):
            ks = list(m.parameter_keys)
            ks[i], ks[j] = ks[j], ks[i]
            m.parameter_keys = ks
        muts.append((f"keys-out-of-order:{i}{j}", swap, False))

    def defaults_swapped(m, i, j):
        orig = m.get_parameter_defaults

        def get_parameter_defaults():
            import lmfit
            P = orig()
            keys = list(P.keys())
            keys[i], keys[j] = keys[j], keys[i]
            Q = lmfit.Parameters()
            for k in keys:
                Q.add(k, value=P[k].value, min=P[k].min, max=P[k].max,
                      vary=P[k].vary)
            return Q
        m.get_parameter_defaults = get_parameter_defaults

    def args_reordered(m):
        f = m.model_func

        def verif_model(delta, R, E, contact_point=0, baseline=0):
            return f(delta, E=E, R=R, contact_point=contact_point,
                     baseline=baseline)
        verif_model.__doc__ = f.__doc__
        m.model_func = verif_model
    # defaults out of order, alone and together with a model function that
    # takes its arguments in another order than parameter_keys (which on
    # its own is legitimate: the registry only warns)
    for i, j in ((0, 1), (1, 2), (2, 3), (0, 3), (1, 3)):
        muts.append((f"defaults-out-of-order:{i}{j}",
                     lambda m, i=i, j=j: defaults_swapped(m, i, j), False))
        muts.append((f"args-reordered+defaults-out-of-order:{i}{j}",
                     lambda m, i=i, j=j: (args_reordered(m),
                                          defaults_swapped(m, i, j)), False))
    return muts


def mutant_part(rep):
    from nanite.model import logic, NaniteFitModel
    ME = model_error_classes()
    n = 0
    for name, mutate, needs_anc in mutants():
        for entry in ("register_model", "NaniteFitModel",
                      "register_model:key-in-use",
                      "register_model:same-object"):
            with Registry() as reg:
                if entry.endswith("key-in-use"):
                    # a valid model is registered under the key first
                    Mv, _ = make_module("vk_mut", 2.0)
                    logic.register_model(Mv)
                M, _ = make_module("vk_mut", 1.0,
                                   anc={"E": 1234.0} if needs_anc else None)
                if entry.endswith("same-object"):
                    # the very module object was accepted before it was
                    # edited (model development: register, edit, register)
                    logic.register_model(M)
                    logic.deregister_model(logic.models_available["vk_mut"])
                mutate(M)
                case = {"kind": "mutant", "mutant": name, "entry": entry}
                before = dict(logic.models_available)
                n += 1
                try:
                    if entry.startswith("register_model"):
                        logic.register_model(M)
                    else:
                        NaniteFitModel(M)
                    rep.violate(V(PROP, "mutant-accepted", site=entry,
                                  witness=name, detail="a faulty module was "
                                  "accepted", case=case, kind="mutant"))
                except ME:
                    pass
                except BaseException as e:
                    if isinstance(e, (KeyboardInterrupt, SystemExit)):
                        raise
                    rep.violate(V(PROP, "mutant-wrong-error", site=entry,
                                  witness=name, detail=f"rejected with "
                                  f"{e!r}, not a model error", case=case,
                                  kind="mutant"))
                after = dict(logic.models_available)
                if list(after) != list(before) or any(
                        after[k] is not before[k] for k in before):
                    rep.violate(V(PROP, "registry-changed", site=entry,
                                  witness=name, detail="the registry changed "
                                  "although the module was rejected: keys "
                                  f"{sorted(set(before) ^ set(after))} "
                                  "lost/gained, or an entry was replaced",
                                  case=case, kind="mutant"))
    rep.add("transitions", n)
    rep.add("traces_validated_against_impl", n)
    rep.set("mutants", n)
    rep.sample({"mutant": "delete:model_func", "entry": "register_model"})


# -------------------------------------------------------- (iii) the loader

def loader_part(rep, tmp):
    from nanite.model import logic
    from nanite.model.core import ModelImportError
    ME = model_error_classes()
    d1 = os.path.join(tmp, "d1")
    d2 = os.path.join(tmp, "d2")
    os.makedirs(d1)
    os.makedirs(d2)
    _, good = make_module("vk_file", 1.0)
    _, good2 = make_module("vk_file2", 2.0)
    paths = {}

    def wr(d, name, src):
        p = os.path.join(d, name)
        open(p, "w").write(src)
        return p
    paths["valid"] = wr(d1, "vmodel_ok.py", good)
    # a model that keeps part of its code in a module next to it
    d3 = os.path.join(tmp, "d3")
    os.makedirs(d3)
    wr(d3, "vk_helper_mod_c18.py", "HELPER_FACTOR = 1.0\n")
    paths["valid-two-files"] = wr(
        d3, "vmodel_two.py",
        "from vk_helper_mod_c18 import HELPER_FACTOR\n" + good)
    paths["syntax"] = wr(d1, "vmodel_syntax.py", "def broken(:\n pass\n")
    paths["inner-import"] = wr(d1, "vmodel_inner.py",
                               "import no_such_module_xyz\n" + good)
    paths["raises"] = wr(d1, "vmodel_raises.py", "x = 1/0\n" + good)
    paths["missing"] = os.path.join(d1, "vmodel_nonexistent.py")
    paths["same-stem-1"] = wr(d1, "vmodel_same.py", good)
    paths["same-stem-2"] = wr(d2, "vmodel_same.py", good2)
    _, mut = make_module("vk_file", 1.0)
    paths["incomplete"] = wr(d1, "vmodel_incomplete.py",
                             good.replace('model_name = "verif model '
                                          'vk_file"', ""))
    n = 0
    for where in ("absent", "first", "last", "middle"):
        for kind in ("valid", "valid-two-files", "syntax", "inner-import",
                     "raises", "missing", "incomplete"):
            for register in (False, True):
                with Registry():
                    p = paths[kind]
                    pdir = os.path.dirname(p)
                    if where == "first":
                        sys.path.insert(0, pdir)
                    elif where == "last":
                        sys.path.append(pdir)
                    elif where == "middle":
                        sys.path.insert(2, pdir)
                    path0 = list(sys.path)
                    before = dict(logic.models_available)
                    case = {"kind": "loader", "input": kind, "where": where,
                            "register": register}
                    wit = f"{kind}:{where}"
                    n += 1
                    try:
                        md = logic.load_model_from_file(p, register=register)
                        if not kind.startswith("valid"):
                            rep.violate(V(PROP, "import-wrong-error",
                                          site="load_model_from_file",
                                          witness=wit, detail="no error for "
                                          "an unloadable file", case=case,
                                          kind="loader"))
                        elif md.model_key != "vk_file":
                            rep.violate(V(PROP, "file-differs",
                                          site="load_model_from_file",
                                          witness=wit, detail="wrong model",
                                          case=case, kind="loader"))
                    except ModelImportError:
                        if kind.startswith("valid") or kind == "incomplete":
                            rep.violate(V(PROP, "import-wrong-error",
                                          site="load_model_from_file",
                                          witness=wit, detail="import error "
                                          "for an importable file",
                                          case=case, kind="loader"))
                    except ME as e:
                        if kind != "incomplete":
                            rep.violate(V(PROP, "import-wrong-error",
                                          site="load_model_from_file",
                                          witness=wit, detail=repr(e),
                                          case=case, kind="loader"))
                    except BaseException as e:
                        if isinstance(e, (KeyboardInterrupt, SystemExit)):
                            raise
                        rep.violate(V(
                            PROP, "import-wrong-error",
                            site="load_model_from_file", witness=wit,
                            detail=f"{type(e).__name__}: {e} instead of the "
                            "documented ModelImportError", case=case,
                            kind="loader"))
                    if sys.path != path0:
                        rep.violate(V(
                            PROP, "syspath-changed",
                            site="load_model_from_file", witness=wit,
                            detail="sys.path differs after the call: "
                            f"{_pathdiff(path0, sys.path)}", case=case,
                            kind="loader"))
                    if not kind.startswith("valid") or not register:
                        if dict(logic.models_available) != before:
                            rep.violate(V(PROP, "registry-changed",
                                          site="load_model_from_file",
                                          witness=wit, detail="registry "
                                          "changed", case=case,
                                          kind="loader"))
    # two files with the same stem in different directories
    for order in (("same-stem-1", "same-stem-2"),
                  ("same-stem-2", "same-stem-1")):
        with Registry():
            case = {"kind": "loader", "input": "same-stem",
                    "order": list(order)}
            n += 1
            try:
                a = logic.load_model_from_file(paths[order[0]])
                b = logic.load_model_from_file(paths[order[1]])
                want = {"same-stem-1": "vk_file", "same-stem-2": "vk_file2"}
                if (a.model_key, b.model_key) != (want[order[0]],
                                                  want[order[1]]):
                    rep.violate(V(
                        PROP, "file-differs", site="load_model_from_file",
                        witness="same-stem", detail="two files with the same "
                        f"name in different directories gave keys "
                        f"{(a.model_key, b.model_key)}", case=case,
                        kind="loader"))
            except BaseException as e:
                if isinstance(e, (KeyboardInterrupt, SystemExit)):
                    raise
                rep.violate(V(PROP, "import-wrong-error",
                              site="load_model_from_file",
                              witness="same-stem", detail=repr(e), case=case,
                              kind="loader"))
    # file copies of shipped models behave like the shipped ones
    import nanite.model as nm
    for key in synth.MODELS5:
        with Registry():
            md0 = nm.models_available[key]
            src = open(md0.module.__file__).read().replace(
                f'model_key = "{key}"', f'model_key = "{key}_verifcopy"')
            p = wr(d2, f"vcopy_{key}.py", src)
            case = {"kind": "loader", "input": "copy", "model": key}
            n += 1
            try:
                md = logic.load_model_from_file(p, register=True)
            except BaseException as e:
                if isinstance(e, (KeyboardInterrupt, SystemExit)):
                    raise
                rep.violate(V(PROP, "file-differs",
                              site="load_model_from_file", witness=key,
                              detail=f"copy of shipped model raises {e!r}",
                              case=case, kind="loader"))
                continue
            P = md0.get_parameter_defaults()
            x = np.linspace(1e-6, -2e-6, 200)
            same = np.array_equal(md.model(P, x), md0.model(P, x))
            tr = synth.truth_params(key, contact_point=1e-7)
            r = []
            for k in (key, key + "_verifcopy"):
                c = synth.make_curve(key, tr, n_app=150, n_ret=50,
                                     noise=1e-11, seed=4)
                c.fit_model(model_key=k)
                r.append((cn.digest(np.asarray(c["fit"])),
                          cn.norm(c.fit_properties["params_fitted"]),
                          cn.norm(c.fit_properties["chi_sqr"])))
            if not same or r[0] != r[1]:
                rep.violate(V(PROP, "file-differs",
                              site="load_model_from_file", witness=key,
                              detail="file copy of the shipped model does "
                              "not evaluate/fit bit-identically", case=case,
                              kind="loader"))
    rep.add("transitions", n)
    rep.add("traces_validated_against_impl", n)
    rep.set("loader_cases", n)
    rep.sample({"loader": "inner-import", "directory_on_sys_path": "first"})


def _pathdiff(a, b):
    return {"removed": [x for x in a if x not in b],
            "added": [x for x in b if x not in a],
            "reordered": sorted(a) == sorted(b) and a != b}


# ------------------------------------- (iii-b) own model / residual kept

OWN_MODEL_SRC = '''

def model(params, delta):
    """the module's own modelling function (marker: + 7e-9)"""
    return model_func(delta, **params.valuesdict()) + 7e-9
'''

OWN_RESIDUAL_SRC = '''

def residual(params, delta, force, weight_cp=5e-7):
    """the module's own residual function (marker: x 3)"""
    return 3 * (force - model_func(delta, **params.valuesdict()))
'''


def own_wrappers_part(rep, tmp):
    """default residual/model wrappers are provided for what a module does
    not define itself - and only for that"""
    from nanite.model import logic
    n = 0
    for own_model in (False, True):
        for own_res in (False, True):
            for entry in ("register_model", "load_model_from_file"):
                with Registry():
                    key = f"vk_own{int(own_model)}{int(own_res)}"
                    _, src = make_module(key, 1.0)
                    if own_model:
                        src += OWN_MODEL_SRC
                    if own_res:
                        src += OWN_RESIDUAL_SRC
                    case = {"kind": "own", "own_model": own_model,
                            "own_residual": own_res, "entry": entry}
                    wit = f"model={own_model},residual={own_res}"
                    n += 1
                    try:
                        if entry == "register_model":
                            mod = types.ModuleType("verif_mod_" + key)
                            exec(compile(src, mod.__name__, "exec"),
                                 mod.__dict__)
                            md = logic.register_model(mod)
                        else:
                            pth = os.path.join(tmp, f"vmodel_{key}.py")
                            open(pth, "w").write(src)
                            md = logic.load_model_from_file(pth,
                                                            register=True)
                        md = logic.models_available[key]
                        P = md.get_parameter_defaults()
                        P["contact_point"].set(value=1e-7)
                        x = np.linspace(1e-6, -1e-6, 40)
                        y = np.linspace(0, 1e-9, 40)
                        base = md.module.model_func(x, **P.valuesdict())
                        em = base + (7e-9 if own_model else 0.0)
                        gm = md.model(P, x)
                        w = 5e-7
                        wt = np.minimum(1.0, np.abs(x - 1e-7) / w)
                        er = 3 * (y - base) if own_res else \
                            (y - (em if False else base)) * wt
                        if own_res is False and own_model:
                            # documented default: residuals of model_func
                            er = (y - base) * wt
                        gr = md.residual(P, x, y, w)
                        if not np.allclose(gm, em, rtol=1e-12, atol=0):
                            rep.violate(V(
                                PROP, "defaults", site="own-model",
                                witness=wit + ":" + entry, detail="the "
                                "registered model's `model` is not the "
                                + ("function the module defines"
                                   if own_model else "default wrapper"),
                                case=case, kind="own"))
                        if not np.allclose(gr, er, rtol=1e-12, atol=1e-30):
                            rep.violate(V(
                                PROP, "defaults", site="own-residual",
                                witness=wit + ":" + entry, detail="the "
                                "registered model's `residual` is not the "
                                + ("function the module defines"
                                   if own_res else "default wrapper"),
                                case=case, kind="own"))
                    except BaseException as e:
                        if isinstance(e, (KeyboardInterrupt, SystemExit)):
                            raise
                        rep.violate(V(PROP, "defaults", site="own-wrappers",
                                      witness=wit + ":" + entry,
                                      detail=f"raises {e!r}", case=case,
                                      kind="own"))
    rep.add("transitions", n)
    rep.add("traces_validated_against_impl", n)
    rep.set("own_wrapper_cases", n)


# ----------------------------------------------------- (iv) ancillaries

def ancillary_part(rep):
    from nanite.model import logic
    n = 0
    tr = synth.truth_params("hertz_para", E=3000.0, contact_point=1e-7)
    for pk in ("E", "R", "contact_point", "baseline", "not_a_parameter"):
        for val in (4321.0, 7e-6, float("nan")):
            with Registry():
                M, _ = make_module("vk_anc", 1.0, anc={pk: val})
                logic.register_model(M)
                c = synth.make_curve("hertz_para", tr, n_app=150, n_ret=50,
                                     noise=1e-11, seed=4)
                case = {"kind": "anc", "key": pk,
                        "value": "nan" if np.isnan(val) else val}
                n += 1
                P = c.get_initial_fit_parameters(model_key="vk_anc")
                P0 = c.get_initial_fit_parameters(model_key="vk_anc",
                                                  model_ancillaries=False)
                for name in P:
                    exp = P0[name].value
                    if name == pk and not np.isnan(val):
                        exp = val
                    if cn.norm(P[name].value) != cn.norm(exp):
                        rep.violate(V(
                            PROP, "ancillary-seed", site="initial-params",
                            witness=f"{pk}:{case['value']}",
                            detail=f"initial {name}={P[name].value}, "
                            f"expected {exp}", case=case, kind="anc"))
                import nanite.model as nm
                for rnd in range(2):
                    for mk, want in (("vk_anc", ["max_indent", pk]),
                                     ("hertz_para", ["max_indent"]),
                                     ("vk_anc", ["max_indent", pk])):
                        got = list(nm.get_anc_parm_keys(mk))
                        if got != want:
                            rep.violate(V(
                                PROP, "defaults", site="ancillary-keys",
                                witness=f"{mk}:round{rnd}",
                                detail=f"ancillary keys of {mk} are {got}, "
                                f"expected {want}", case=case, kind="anc"))
                # documented names and units of the fit parameters (an
                # ancillary with the same key has a label of its own)
                md = logic.models_available["vk_anc"]
                for k_, nm_, un_ in zip(md.parameter_keys,
                                        M.parameter_names,
                                        M.parameter_units):
                    got = (md.get_parm_name(k_), md.get_parm_unit(k_),
                           nm.get_parm_name("vk_anc", k_),
                           nm.get_parm_unit("vk_anc", k_))
                    if got != (nm_, un_, nm_, un_):
                        rep.violate(V(
                            PROP, "defaults", site="parameter-names",
                            witness=f"{k_}:anc={pk}",
                            detail=f"name/unit of fit parameter {k_} are "
                            f"{got}, the module documents {(nm_, un_)} "
                            f"(ancillary key {pk})", case=case, kind="anc"))
                if pk not in md.parameter_keys and (
                        md.get_parm_name(pk), md.get_parm_unit(pk)) != (
                        "anc " + pk, "u"):
                    rep.violate(V(PROP, "defaults", site="parameter-names",
                                  witness=f"anc-label:{pk}", detail="label of "
                                  "the ancillary-only key", case=case,
                                  kind="anc"))
                anc = c.get_ancillary_parameters(model_key="vk_anc")
                if list(anc.keys()) != ["max_indent", pk]:
                    rep.violate(V(PROP, "defaults", site="ancillaries",
                                  witness=pk, detail=f"{list(anc.keys())}",
                                  case=case, kind="anc"))
    rep.add("transitions", n)
    rep.add("traces_validated_against_impl", n)
    rep.set("ancillary_cases", n)


def replay(doc):
    """Re-run the part the case belongs to and return matching violations"""
    rep = Report(PROP, "quick", LEVEL)
    _run_parts(rep, only=doc["case"]["kind"])
    return [v for v in rep.violations
            if v["clause"] == doc["clause"]
            and v.get("witness") == doc.get("witness")]


def _run_parts(rep, only=None):
    base = os.path.join(VERIF_ROOT, "scratch")
    os.makedirs(base, exist_ok=True)
    tmp = tempfile.mkdtemp(prefix="c18_", dir=base)
    try:
        with Registry():
            if only in (None, "closure"):
                closure_part(rep, tmp)
            if only in (None, "handle"):
                handle_part(rep)
            if only in (None, "mutant"):
                mutant_part(rep)
            if only in (None, "loader"):
                loader_part(rep, tmp)
            if only in (None, "own"):
                own_wrappers_part(rep, tmp)
            if only in (None, "anc"):
                ancillary_part(rep)
    finally:
        shutil.rmtree(tmp, ignore_errors=True)


def run(tier):
    rep = Report(PROP, tier, LEVEL)
    _run_parts(rep)
    rep.set("exhaustive", True)
    rep.assumptions += [
        "mutant set = the four fault kinds the property names: a missing "
        "required attribute (10 + 3 ancillary), mismatched list lengths "
        "(6), duplicate names, keys out of order (4)",
        "registry, sys.path and sys.modules are snapshotted and restored "
        "around every transition",
    ]
    return rep
