"""C16 - rating containers round-trip and only ever grow.

HIST: all sequences of save(curve, fit, user) up to a depth against a
dict reference model, with a canonical byte-level dump of the container
after every op and a full reload.  FAULT: for every reachable pre-state up
to a depth, every op and every write call of that save, an OSError is
raised at that call; afterwards every previously stored rating must still
be readable and unchanged.
"""
import atexit
import json
import os
import shutil
import tempfile

import numpy as np

from .. import canon as cn
from .. import hist, synth, VERIF_ROOT
from ..core import Report, V, pmap, shuffled

PROP = "C16"
LEVEL = "model_checking"

FIX_DIR = os.path.join(VERIF_ROOT, "scratch", "c16_fixtures")
P1 = ["compute_tip_position", "correct_force_offset", "correct_tip_offset"]
COLS = ["force", "tip position", "segment", "fit", "fit residuals",
        "fit range"]
VOLATILE_ATTRS = {"user time", "user time str", "nanite version",
                  "h5py version"}

CURVES = {"A0": ("A.h5", 0), "B0": ("B.h5", 0), "B1": ("B.h5", 1),
          "C0": ("C.h5", 0)}
FITS = {
    "f1": {"model_key": "hertz_para"},
    "f2": {"model_key": "hertz_para", "weight_cp": 0},
    "f3": {"model_key": "hertz_para", "range_x": [-6e-7, 1e-6]},
    "f4": {"model_key": "hertz_cone", "segment": 1, "gcf_k": 0.5,
           "method": "nelder", "method_kws": {"max_nfev": 300}},
    "f5": {"model_key": "hertz_para", "optimal_fit_edelta": True,
           "optimal_fit_num_samples": 7, "range_x": [-8e-7, 1e-6]},
    # interval limits computed from data: numpy scalars with all their
    # digits (marker "__np__": converted to numpy.float64 at call time)
    "f6": {"model_key": "hertz_para",
           "range_x": {"__np__": [-7.123456789012345e-07,
                                  4.987654321098765e-07]}},
}
# the same fit written with a don't-care setting spelled out: same
# curve, same fit (-> accepted as "the same curve again")
FITS["f7"] = {"model_key": "hertz_para", "optimal_fit_num_samples": 50}
SAME_FIT = {"f7": "f1"}


def fit_class(f):
    return SAME_FIT.get(f, f)


USERS = {"u1": ("alice", 0, "ok"), "u2": ("bob", 2.5, "hm, é")}


def ensure_fixtures():
    """Synthetic afmformats-HDF5 measurement files, written once."""
    import h5py
    os.makedirs(FIX_DIR, exist_ok=True)
    spec = {"A.h5": [(3000.0, 1, False)],
            "B.h5": [(5000.0, 2, False), (800.0, 3, False)],
            "C.h5": [(2000.0, 4, True)]}
    for fn, curves in spec.items():
        path = os.path.join(FIX_DIR, fn)
        if os.path.exists(path):
            continue
        tmp = path + f".{os.getpid()}.tmp"
        with h5py.File(tmp, "w") as h5:
            for en, (E, seed, innate) in enumerate(curves):
                tr = synth.truth_params("hertz_para", E=E, contact_point=1e-7,
                                        baseline=5e-11)
                c = synth.make_curve("hertz_para", tr, n_app=200, n_ret=120,
                                     noise=2e-11, seed=seed, tilt=1e-5,
                                     innate_tip=innate, path=path, enum=en)
                c.export_data(h5, metadata=True, fmt="hdf5")
        os.replace(tmp, path)
    return FIX_DIR


_FITTED = {}


def fitted(cname, fname):
    """freshly loaded, preprocessed and fitted curve (memoised per worker;
    save_hdf5 must not change it - checked)."""
    key = (cname, fname)
    if key not in _FITTED:
        from nanite import IndentationGroup
        fn, en = CURVES[cname]
        idnt = IndentationGroup(os.path.join(FIX_DIR, fn))[en]
        if cname != "C0":
            idnt.apply_preprocessing(list(P1))
        kw = json.loads(json.dumps(FITS[fname]))
        for k_, v_ in list(kw.items()):
            if isinstance(v_, dict) and set(v_) == {"__np__"}:
                kw[k_] = tuple(np.float64(x_) for x_ in v_["__np__"])
        idnt.fit_model(**kw)
        _FITTED[key] = (idnt, cn.indent_canon(idnt))
    return _FITTED[key][0]


_TMP = None


def tmpdir():
    global _TMP
    if _TMP is None:
        base = "/dev/shm" if os.path.isdir("/dev/shm") else \
            os.path.join(VERIF_ROOT, "scratch")
        _TMP = tempfile.mkdtemp(prefix="verif_c16_", dir=base)
        # library code under test also creates temporary directories
        # (load_hdf5); keep them inside the per-run scratch directory
        tempfile.tempdir = _TMP
        atexit.register(shutil.rmtree, _TMP, True)
    return _TMP


_CNT = [0]


def new_container():
    _CNT[0] += 1
    return os.path.join(tmpdir(), f"c{os.getpid()}_{_CNT[0]}.h5")


def dump(path):
    """canonical byte-level dump: {group path: digest} (volatile
    attributes excluded)"""
    import h5py
    out = {}
    if not os.path.exists(path):
        return out
    with h5py.File(path, "r") as h5:
        def visit(name, obj):
            attrs = {k: _norm_attr(k, obj.attrs[k]) for k in obj.attrs
                     if k not in VOLATILE_ATTRS}
            if isinstance(obj, h5py.Dataset):
                arr = obj[...]
                body = (str(arr.dtype), arr.shape,
                        cn.digest(np.asarray(arr)))
            else:
                body = "group"
            top = "/".join(name.split("/")[:2])
            out.setdefault(top, []).append((name, body,
                                            sorted(attrs.items())))
        h5.visititems(visit)
    return {k: cn.digest(repr(sorted(v, key=lambda t: t[0])))
            for k, v in out.items()}


def _norm_attr(k, v):
    if k.startswith("fit params"):
        # lmfit's JSON dump is not canonical (symbol order); compare the
        # parameters it encodes
        import lmfit
        P = lmfit.Parameters()
        P.loads(_attr(v))
        return norm_setting(k, P)
    return cn.norm(_attr(v))


def _attr(v):
    if isinstance(v, bytes):
        return v.decode()
    if isinstance(v, np.ndarray):
        return v
    if isinstance(v, np.generic):
        return v.item()
    return v


def norm_setting(k, v):
    import lmfit
    if isinstance(v, lmfit.Parameters):
        return tuple((n, cn.norm(v[n].value), cn.norm(v[n].min),
                      cn.norm(v[n].max), bool(v[n].vary), v[n].expr)
                     for n in v)
    if isinstance(v, bytes):
        v = v.decode()
    return cn.norm(_attr(v))


def entry_digest(r):
    """what a reader gets for one stored rating"""
    d = r["data_set"]
    return {
        "user": (str(r["name"]), cn.norm(r["rating"]), str(r["comment"])),
        "cols": {c: cn.digest(np.asarray(d[c])) for c in COLS},
        "fp": {k: norm_setting(k, v)
               for k, v in r["fit properties"].items()},
    }


def load_entries(path):
    from nanite.rate.io import load_hdf5
    res = {}
    for r in load_hdf5(path):
        d = r["data_set"]
        name = os.path.basename(str(d.path))
        # extracted as "<hash>_<original name>"
        orig = name.split("_", 1)[1] if "_" in name else name
        res[(orig, int(r["enum"]))] = (entry_digest(r), r)
    return res


class World:
    pass


class Driver(hist.Driver):
    prop = PROP
    name = "saves"

    def __init__(self, curves=("A0", "B0", "B1"), fits=("f1", "f2", "f3"),
                 users=("u1", "u2"), name=None):
        self.ops = [["save", c, f, u] for c in curves for f in fits
                    for u in users]
        if name:
            self.name = name

    def fresh(self):
        ensure_fixtures()
        w = World()
        w.path = new_container()
        w.ref = {}
        w.order = 0
        w.viol = []
        return w

    def do_save(self, w, op, path=None):
        from nanite.rate.io import save_hdf5
        _, c, f, u = op
        idnt = fitted(c, f)
        name, rate, comment = USERS[u]
        try:
            save_hdf5(path or w.path, idnt, user_rate=rate, user_name=name,
                      user_comment=comment)
            return None
        except BaseException as e:
            if isinstance(e, (KeyboardInterrupt, SystemExit, MemoryError)):
                raise
            return e

    def apply(self, w, op):
        _, c, f, u = op
        key = (CURVES[c][0], CURVES[c][1])
        before = dump(w.path)
        idnt = fitted(c, f)
        exc = self.do_save(w, op)
        after = dump(w.path)
        w.viol = []
        # a reader looks at the container between the saves (what a reader
        # gets later must not depend on it)
        try:
            from nanite.rate.io import RateManager
            rm = RateManager(w.path)
            nread = len(rm.ratings)
            nsamp = len(rm.samples) if nread else 0
            if nread != nsamp:
                w.viol.append(("entry-lost", f"RateManager reads {nread} "
                               f"ratings but {nsamp} feature rows"))
        except BaseException as e:
            if isinstance(e, (KeyboardInterrupt, SystemExit, MemoryError)):
                raise
            w.viol.append(("load-raises", f"RateManager(container) raised "
                           f"{e!r} after this save"))
        gid = None
        for g in after:
            pass
        if cn.indent_canon(idnt) != _FITTED[(c, f)][1]:
            w.viol.append(("save-modifies-curve", "save_hdf5 changed the "
                           "curve object it was given"))
        if key not in w.ref:
            # new key: one entry added, everything else byte-identical
            if exc is not None:
                w.viol.append(("save-raises", f"saving a new curve raised "
                               f"{exc!r}"))
            else:
                w.ref[key] = {"fit": f, "user": u, "order": w.order}
                w.order += 1
                changed = [g for g in before if before[g] != after.get(g)
                           and g not in ("data", "analysis")]
                if changed:
                    w.viol.append(("entry-altered", f"storing a new curve "
                                   f"altered existing groups {changed}"))
        elif fit_class(w.ref[key]["fit"]) == fit_class(f):
            if exc is not None:
                w.viol.append(("save-raises", f"re-saving the same fit "
                               f"raised {exc!r}"))
            else:
                w.ref[key]["user"] = u
                changed = [g for g in set(before) | set(after)
                           if before.get(g) != after.get(g)
                           and g not in ("data", "analysis")]
                if len(changed) > 1:
                    w.viol.append(("resave-altered", "re-saving a curve "
                                   f"changed other groups: {changed}"))
        else:
            if exc is None:
                w.viol.append(("different-fit-accepted",
                               f"stored fit {w.ref[key]['fit']}, new fit {f} "
                               "for the same curve was accepted"))
                # follow the implementation (user fields were updated)
                w.ref[key]["user"] = u
                w.ref[key]["tainted"] = True
            elif not isinstance(exc, ValueError):
                w.viol.append(("save-raises", f"different fit refused with "
                               f"{exc!r} instead of ValueError"))
            if exc is not None and before != after:
                w.viol.append(("refused-but-changed", "refused save changed "
                               "the container"))
        return {"ok": exc is None, "exc": type(exc).__name__ if exc else None}

    def canon(self, w):
        return cn.digest([dump(w.path),
                          sorted((k, v["fit"], v["user"])
                                 for k, v in w.ref.items())])

    def check_transition(self, pre, op, obs, w, hops):
        out = []
        case = self.case(hops)
        for clause, detail in w.viol:
            out.append(V(PROP, clause, site="save_hdf5",
                         witness=f"{op[2]}:{clause}", detail=detail,
                         case=case, kind="hist"))
        w.viol = []
        return out

    def check_state(self, w, hops):
        from nanite.rate.io import hdf5_rated, RateManager
        from nanite.rate.features import IndentationFeatures as IF
        out = []
        case = self.case(hops)

        def viol(clause, wit, detail):
            out.append(V(PROP, clause, site="load_hdf5", witness=wit,
                         detail=detail, case=case, kind="hist"))
        if not w.ref:
            return out
        try:
            entries = load_entries(w.path)
        except BaseException as e:
            if isinstance(e, (KeyboardInterrupt, SystemExit)):
                raise
            viol("load-raises", type(e).__name__, f"load_hdf5 raised {e!r}")
            return out
        if set(entries) != set(w.ref):
            viol("entry-lost", "keys", f"container holds {sorted(entries)}, "
                 f"reference {sorted(w.ref)}")
            return out
        for key, ref in w.ref.items():
            dg, r = entries[key]
            cname = [c for c, v in CURVES.items() if v == key][0]
            if ref.get("tainted"):
                continue
            orig = fitted(cname, ref["fit"])
            uname, urate, ucomment = USERS[ref["user"]]
            if dg["user"] != (uname, cn.norm(urate), ucomment):
                viol("roundtrip-user", cname, f"{dg['user']} vs stored "
                     f"{(uname, urate, ucomment)}")
            for c in COLS:
                if dg["cols"][c] != cn.digest(np.asarray(orig[c])):
                    viol("roundtrip-column", f"{ref['fit']}:{c}",
                         f"column {c} of {cname} differs after reload")
            ofp = orig.fit_properties
            for k in ofp:
                if k not in dg["fp"]:
                    viol("roundtrip-setting", f"{ref['fit']}:{k}",
                         f"setting {k} missing after reload")
                elif dg["fp"][k] != norm_setting(k, ofp[k]):
                    clause = "roundtrip-param" if k.startswith("params") \
                        else "roundtrip-setting"
                    viol(clause, f"{ref['fit']}:{k}",
                         f"{k}: saved {ofp[k]!r}, loaded "
                         f"{r['fit properties'][k]!r}")
            try:
                f1 = IF.compute_features(orig)
                f2 = IF.compute_features(r["data_set"])
                if not np.array_equal(f1, f2, equal_nan=True):
                    viol("roundtrip-feature", ref["fit"],
                         f"features differ: {f1} vs {f2}")
            except BaseException as e:
                viol("roundtrip-feature", ref["fit"],
                     f"features raise after reload: {e!r}")
        # hdf5_rated and RateManager agree with the reference
        for cname, key in CURVES.items():
            try:
                cur = fitted(cname, "f1")
            except BaseException:
                continue
            rated, rating, comment = hdf5_rated(w.path, cur)
            if rated != (key in w.ref):
                viol("rated-flag", cname, f"hdf5_rated says {rated}")
            elif rated:
                u = USERS[w.ref[key]["user"]]
                if (rating, comment) != (u[1], u[2]):
                    viol("rated-flag", cname, f"hdf5_rated returns "
                         f"{(rating, comment)}, stored {(u[1], u[2])}")
        n = len(RateManager(w.path).ratings)
        if n != len(w.ref):
            viol("entry-lost", "RateManager", f"{n} ratings vs {len(w.ref)}")
        return out

    def state_stats(self, w):
        return {"entries": len(w.ref),
                "distinct_dumps": cn.digest(dump(w.path))}


DRIVERS = {
    "saves": Driver(),
    "saves_wide": Driver(curves=("A0", "B1", "C0"),
                         fits=("f1", "f4", "f5", "f6", "f7"), users=("u1",),
                         name="saves_wide"),
}


# ------------------------------------------------------------ FAULT layer

class Boom(OSError):
    pass


class FaultPoints:
    """wrap the h5py write calls save_hdf5 makes; raise at the k-th"""

    def __init__(self, fail_at=None):
        self.fail_at = fail_at
        self.n = 0
        self.log = []

    def __enter__(self):
        import h5py._hl.group as G
        import h5py._hl.attrs as A
        self.G, self.A = G, A
        self.orig = (G.Group.create_dataset, G.Group.create_group,
                     G.Group.require_group, A.AttributeManager.__setitem__)
        fp = self

        def tick(name):
            fp.n += 1
            fp.log.append(name)
            if fp.fail_at is not None and fp.n == fp.fail_at:
                raise Boom(f"injected failure at write call {fp.n}: {name}")

        def cd(self, name, *a, **k):
            tick("create_dataset:" + str(name))
            return fp.orig[0](self, name, *a, **k)

        def cg(self, name, *a, **k):
            tick("create_group:" + str(name))
            return fp.orig[1](self, name, *a, **k)

        def rg(self, name, *a, **k):
            tick("require_group:" + str(name))
            return fp.orig[2](self, name, *a, **k)

        def sa(self, name, value):
            tick("attr:" + str(name))
            return fp.orig[3](self, name, value)
        G.Group.create_dataset = cd
        G.Group.create_group = cg
        G.Group.require_group = rg
        A.AttributeManager.__setitem__ = sa
        return self

    def __exit__(self, *exc):
        G, A = self.G, self.A
        (G.Group.create_dataset, G.Group.create_group,
         G.Group.require_group, A.AttributeManager.__setitem__) = self.orig
        return False


def _fault_work(args):
    dname, hist_idx, op_idx = args
    drv = DRIVERS[dname]
    w, _ = hist.build(drv, hist_idx)
    op = drv.ops[op_idx]
    hops = [drv.ops[i] for i in hist_idx]
    out = []
    pre_entries = {k: v[0] for k, v in load_entries(w.path).items()}
    pre_file = w.path
    # count the write calls of this save
    probe = new_container()
    shutil.copy(pre_file, probe)
    with FaultPoints() as fp0:
        drv.do_save(w, op, path=probe)
    W = fp0.n
    names = list(fp0.log)
    # what a clean save leads to (reference for "fault, then retry")
    try:
        clean = {kk: v[0] for kk, v in load_entries(probe).items()}
    except BaseException:
        clean = None
    os.remove(probe)
    runs = 0
    for k in range(1, W + 1):
        trial = new_container()
        shutil.copy(pre_file, trial)
        with FaultPoints(fail_at=k):
            exc = drv.do_save(w, op, path=trial)
        runs += 1
        case = {"module": __name__, "driver": dname, "hist": hops,
                "fault": {"op": op, "k": k}}
        wit = f"write#{k}:{names[k - 1].split(':')[0]}"
        if not isinstance(exc, Boom):
            # the save swallowed or replaced the injected error
            if exc is None:
                out.append(V(PROP, "fault-swallowed", site="save_hdf5",
                             witness=wit, detail="save reported success "
                             f"although write call {k} ({names[k-1]}) "
                             "failed", case=case, kind="fault"))
        try:
            post = {kk: v[0] for kk, v in load_entries(trial).items()}
        except BaseException as e:
            if isinstance(e, (KeyboardInterrupt, SystemExit)):
                raise
            out.append(V(PROP, "fault-unreadable", site="save_hdf5",
                         witness=wit, detail=f"after a failure at write "
                         f"call {k}/{W} ({names[k-1]}) of {op}, load_hdf5 "
                         f"raises {e!r}; {len(pre_entries)} earlier ratings "
                         "are unreadable", case=case, kind="fault"))
            os.remove(trial)
            continue
        key_op = CURVES[op[1]]
        for kk, dg in pre_entries.items():
            if kk not in post:
                out.append(V(PROP, "fault-entry-lost", site="save_hdf5",
                             witness=wit, detail=f"entry {kk} missing after "
                             f"a failure at write call {k} ({names[k-1]})",
                             case=case, kind="fault"))
                continue
            pd = post[kk]
            same_cols = pd["cols"] == dg["cols"] and pd["fp"] == dg["fp"]
            if kk == key_op:
                # the entry being re-saved: user fields may be old or new
                newu = USERS[op[3]]
                ok_user = all(a in (b, c) for a, b, c in zip(
                    pd["user"], dg["user"],
                    (newu[0], cn.norm(newu[1]), newu[2])))
            else:
                ok_user = pd["user"] == dg["user"]
            if not (same_cols and ok_user):
                out.append(V(PROP, "fault-entry-lost", site="save_hdf5",
                             witness=wit, detail=f"entry {kk} altered after "
                             f"a failure at write call {k} ({names[k-1]})",
                             case=case, kind="fault"))
        # retry the interrupted save: the container must end up as after
        # a save that never failed, with every earlier rating readable
        if clean is not None:
            exc2 = drv.do_save(w, op, path=trial)
            runs += 1
            try:
                post2 = {kk: v[0] for kk, v in load_entries(trial).items()}
                if post2 != clean:
                    bad = sorted(str(kk) for kk in set(post2) | set(clean)
                                 if post2.get(kk) != clean.get(kk))
                    out.append(V(
                        PROP, "fault-entry-lost", site="save_hdf5-retry",
                        witness=wit, detail=f"after a failure at write call "
                        f"{k} ({names[k-1]}) and a retry of the same save "
                        f"(retry raised: {exc2!r}) the container differs "
                        f"from a clean save in entries {bad}", case=case,
                        kind="fault"))
            except BaseException as e:
                if isinstance(e, (KeyboardInterrupt, SystemExit)):
                    raise
                out.append(V(
                    PROP, "fault-unreadable", site="save_hdf5-retry",
                    witness=wit, detail=f"after a failure at write call {k} "
                    f"({names[k-1]}) of {op} and a retry of the same save "
                    f"(retry raised: {exc2!r}) load_hdf5 raises {e!r}: "
                    "earlier ratings are unreadable", case=case,
                    kind="fault"))
        os.remove(trial)
    return out, runs, W


def folder_case(case):
    """load(folder) / RateManager(folder) return, for every container of
    the folder, what loading that container alone returns"""
    from nanite.rate.io import save_hdf5, load_hdf5, load, RateManager
    ensure_fixtures()
    out = []
    d = tempfile.mkdtemp(prefix="folder_", dir=tmpdir())
    try:
        single = {}
        for fn, saves in case["containers"].items():
            p = os.path.join(d, fn)
            for cname, fname, u in saves:
                name, rate, comment = USERS[u]
                save_hdf5(p, fitted(cname, fname), user_rate=rate,
                          user_name=name + fn, user_comment=comment)
        for fn in case["containers"]:
            for r in load_hdf5(os.path.join(d, fn)):
                single[(str(r["name"]), int(r["enum"]),
                        cn.digest(np.asarray(r["data_set"]["fit"])))] = \
                    entry_digest(r)
        for how in ("load", "RateManager"):
            rs = load(d) if how == "load" else RateManager(d).ratings
            if len(rs) != len(single):
                out.append(V(PROP, "entry-lost", site=how, witness="count",
                             detail=f"{len(rs)} ratings from the folder, "
                             f"{len(single)} in its containers", case=case,
                             kind="folder"))
            for r in rs:
                dg = entry_digest(r)
                ref = [v for k, v in single.items()
                       if k[0] == str(r["name"]) and k[1] == int(r["enum"])]
                if not ref or all(dg != v for v in ref):
                    what = "?"
                    if ref:
                        what = [c for c in COLS
                                if dg["cols"][c] != ref[0]["cols"][c]] or \
                            [k for k in dg["fp"]
                             if dg["fp"][k] != ref[0]["fp"].get(k)]
                    out.append(V(
                        PROP, "roundtrip-column", site=how,
                        witness=f"{r['name']}", detail=f"rating "
                        f"{r['name']}/{r['enum']} loaded through the folder "
                        f"differs from the same container loaded alone in "
                        f"{what}", case=case, kind="folder"))
    finally:
        shutil.rmtree(d, ignore_errors=True)
    return out, len(single)


FOLDER_CASES = [
    {"kind": "folder", "containers": {
        "a.h5": [("A0", "f1", "u1"), ("B1", "f1", "u1")],
        "b.h5": [("A0", "f4", "u2"), ("B1", "f3", "u2"),
                 ("B0", "f2", "u2")]}},
    {"kind": "folder", "containers": {
        "x.h5": [("B0", "f3", "u1")],
        "y.h5": [("B0", "f1", "u2")],
        "z.h5": [("B0", "f4", "u1"), ("C0", "f1", "u1")]}},
]


def replay(doc):
    ensure_fixtures()
    case = doc["case"]
    if doc.get("kind") == "folder":
        return folder_case(case)[0]
    if doc.get("kind") == "fault":
        drv = DRIVERS[case["driver"]]
        hidx = [drv.ops.index(o) for o in case["hist"]]
        oidx = drv.ops.index(case["fault"]["op"])
        vs, _, _ = _fault_work((case["driver"], hidx, oidx))
        return [v for v in vs
                if v["case"]["fault"]["k"] == case["fault"]["k"]]
    return hist.replay_case(case)


def run(tier):
    rep = Report(PROP, tier, LEVEL)
    ensure_fixtures()
    plan = {"quick": [("saves", 2), ("saves_wide", 2)],
            "thorough": [("saves", 3), ("saves_wide", 3)]}[tier]
    fdepth = 1 if tier == "quick" else 2
    sc = hist.selfcheck_start(__name__, "saves", [0, 7, 3])
    fjobs = []
    for name, depth in plan:
        drv = DRIVERS[name]
        seen, info = hist.search(drv, rep, depth, merge_check=False)
        hs = sorted((h for h, _ in seen.values()), key=len)
        rep.sample({"driver": name, "history": [drv.ops[i] for i in hs[-1]]})
        for h, _ in seen.values():
            if 1 <= len(h) <= fdepth:
                if tier == "quick" and (name != "saves" or
                                        drv.ops[h[0]][3] != "u1" or
                                        drv.ops[h[0]][2] == "f3"):
                    continue
                for oi in range(len(drv.ops)):
                    fjobs.append((name, h, oi))
    hist.selfcheck_finish(sc, rep, "saves")
    nruns = 0
    Ws = set()
    for vs, runs, W in pmap(_fault_work, shuffled(fjobs)):
        rep.extend(vs)
        nruns += runs
        Ws.add(W)
    nfold = 0
    for fc in FOLDER_CASES:
        vs, n = folder_case(fc)
        rep.extend(vs)
        nfold += n
    rep.set("folder_ratings_checked", nfold)
    rep.add("transitions", nfold)
    rep.set("fault_prestate_op_pairs", len(fjobs))
    rep.set("fault_runs", nruns)
    rep.set("write_calls_per_save", sorted(Ws))
    rep.add("transitions", nruns)
    rep.add("traces_validated_against_impl", nruns)
    rep.sample({"fault": "every write call k=1..W of every save from every "
                "pre-state up to depth %d" % fdepth})
    rep.set("exhaustive", True)
    rep.set("bounds", dict(plan, fault_prestate_depth=fdepth))
    rep.assumptions += [
        "faults are Python exceptions (OSError) raised at h5py call "
        "boundaries (create_dataset, create_group, require_group, attribute "
        "writes); the file is closed normally afterwards; torn pages inside "
        "the HDF5 library are outside nanite's control and this check",
        "when the entry being re-saved is hit by a fault its user fields "
        "may hold old or new values; everything else must be unchanged",
    ]
    return rep
