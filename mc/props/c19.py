"""C19 - CLI profile persists what was entered and every producible
profile can be fitted.

(A) Profile as a store: deviation-bounded closure search against a dict.
(B) legacy key=value rendering of every reached store state loads to the
same values.  (C) setup_profile() driven by a scripted input(): every
script with at most d answered prompts, each answer from a finite menu.
(D) every distinct profile produced in (C) goes through the batch fit
path; statistics file for representative profiles."""
import builtins
import collections
import contextlib
import io
import itertools
import json
import os
import shutil
import sys
import tempfile

import numpy as np

from .. import canon as cn
from .. import synth, VERIF_ROOT
from ..core import Report, V, pmap, chunks, shuffled
from . import c09

PROP = "C19"
LEVEL = "model_checking"

P1 = ["compute_tip_position", "correct_force_offset", "correct_tip_offset"]

_TMP = None


def tmpdir():
    global _TMP
    if _TMP is None:
        base = "/dev/shm" if os.path.isdir("/dev/shm") else \
            os.path.join(VERIF_ROOT, "scratch")
        _TMP = tempfile.mkdtemp(prefix="verif_c19_", dir=base)
        # library code under test also creates temporary directories
        # (load_hdf5); keep them inside the per-run scratch directory
        tempfile.tempdir = _TMP
        import atexit
        atexit.register(shutil.rmtree, _TMP, True)
    return _TMP


_N = [0]


def new_path(suffix=".cfg"):
    _N[0] += 1
    return os.path.join(tmpdir(), f"p{os.getpid()}_{_N[0]}{suffix}")


# ------------------------------------------------------------ (A) store

STORE_DOMAIN = collections.OrderedDict([
    ("model_key", ["sneddon_spher_approx", "hertz_cone", "hertz_para"]),
    ("preprocessing", [P1, ["compute_tip_position"], []]),
    ("preprocessing_options", [
        {}, {"correct_tip_offset": {"method": "fit_constant_line"}}]),
    ("range_type", ["absolute", "relative cp"]),
    ("range_x", [[0, 0], [-2e-6, 1e-6], [0.0, -5e-7]]),
    ("segment", [0, 1]),
    ("weight_cp", [5e-7, 0, 2e-6]),
    ("rating regressor", ["Extra Trees", "Decision Tree"]),
    ("rating training set", ["zef18", "/some/path/ts_x"]),
    ("fit param E value", [None, 77, 0.5]),
    ("fit param E vary", [None, False, True]),
    ("fit param contact_point value", [None, 0.0, -1e-7]),
    ("fit param nu value", [None, 0, 0.3]),
])
SKEYS = list(STORE_DOMAIN)


def store_ops():
    ops = []
    for k, dom in STORE_DOMAIN.items():
        for i, v in enumerate(dom):
            if v is not None:
                ops.append(("set", k, i))
    ops += [("get_fit_params",), ("reopen",), ("bad_key",)]
    # a write through a second object while a first one is open, followed
    # by an unrelated read through the first
    for k in ("weight_cp", "range_x", "model_key"):
        ops.append(("set_via_other", k, 1))
    # a value the profile cannot store (the write raises): everything that
    # was written before stays readable
    for name in REJECTED_WRITES:
        ops.append(("set_rejected", name))
    return ops


REJECTED_WRITES = {
    "range_x:array": ("range_x", lambda: np.array([0.0, 2e-6])),
    "segment:int64": ("segment", lambda: np.int64(1)),
    "E-vary:bool_": ("fit param E vary", lambda: np.bool_(True)),
    "weight_cp:object": ("weight_cp", lambda: object()),
}


def write_state(path, state):
    from nanite.cli.profile import DEFAULTS
    d = {}
    for k, i in zip(SKEYS, state):
        v = STORE_DOMAIN[k][i]
        if v is not None:
            d[k] = v
    for k in DEFAULTS:
        d.setdefault(k, DEFAULTS[k])
    with open(path, "w") as fd:
        json.dump(d, fd)


def read_state(path):
    d = json.load(open(path))
    st = []
    for k in SKEYS:
        if k not in d:
            if None in STORE_DOMAIN[k]:
                st.append(STORE_DOMAIN[k].index(None))
                continue
            return None, d
        nv = cn.norm(d[k])
        for i, v in enumerate(STORE_DOMAIN[k]):
            if v is not None and cn.norm(v) == nv:
                st.append(i)
                break
        else:
            return None, d
    return tuple(st), d


def ref_fit_params(model_key, d):
    from nanite import model as nmodel
    P = nmodel.get_init_parms(model_key)
    exp = {}
    for p in P:
        exp[p] = (d.get(f"fit param {p} value", P[p].value),
                  d.get(f"fit param {p} vary", P[p].vary))
    return exp


def store_transition(state, op):
    """one real transition + reference; returns (violations, next state)"""
    from nanite.cli.profile import Profile, DEFAULTS
    out = []
    path = new_path()
    write_state(path, state)
    pf = Profile(path)
    case = {"kind": "store", "state": list(state), "op": list(op)}

    def viol(clause, detail):
        out.append(V(PROP, clause, site="Profile." + op[0],
                     witness=f"{op}", detail=detail, case=case,
                     kind="store"))
    want = list(state)
    if op[0] == "set":
        k, i = op[1], op[2]
        v = json.loads(json.dumps(STORE_DOMAIN[k][i]))
        pf[k] = v
        want[SKEYS.index(k)] = i
    elif op[0] == "set_via_other":
        k, i = op[1], op[2]
        v = json.loads(json.dumps(STORE_DOMAIN[k][i]))
        other = Profile(path)
        other[k] = v
        pf["segment"]                 # unrelated read through the first
        pf["rating regressor"] = pf["rating regressor"]
        want[SKEYS.index(k)] = i
    elif op[0] == "get_fit_params":
        d0 = json.load(open(path))
        P = pf.get_fit_params()
        exp = ref_fit_params(d0["model_key"], d0)
        got = {p: (P[p].value, P[p].vary) for p in P}
        if set(got) != set(exp) or any(
                cn.norm(got[p]) != cn.norm(exp[p]) for p in exp):
            viol("fit-params", f"returned {got}, expected {exp}")
    elif op[0] == "set_rejected":
        k, mk = REJECTED_WRITES[op[1]]
        try:
            pf[k] = mk()
            # accepted after all: not a case of this operation
            want[SKEYS.index(k)] = None
        except BaseException as e:
            if isinstance(e, (KeyboardInterrupt, SystemExit, MemoryError)):
                raise
    elif op[0] == "bad_key":
        try:
            pf["fit param E min"] = 1
            viol("store-mismatch", "invalid fit-param key accepted")
        except ValueError:
            pass
    # reads from a *new* object return what the reference holds
    try:
        pf2 = Profile(path)
    except BaseException as e:
        if isinstance(e, (KeyboardInterrupt, SystemExit, MemoryError)):
            raise
        viol("store-mismatch", "a new Profile object cannot be created "
             f"for the file: {e!r}")
        return out, None, path
    for k, i in zip(SKEYS, want):
        if i is None:
            continue
        v = STORE_DOMAIN[k][i]
        if v is None:
            continue
        try:
            got = pf2[k] if k in DEFAULTS else pf2.load().get(k, "<absent>")
        except BaseException as e:
            viol("store-mismatch", f"reading {k} raises {e!r}")
            continue
        if cn.norm(got) != cn.norm(v):
            viol("store-mismatch", f"{k}: wrote {v!r}, a new Profile object "
                 f"reads {got!r}")
    if None in want:
        return out, None, path
    try:
        nxt, d = read_state(path)
    except ValueError as e:
        viol("store-mismatch", f"the profile file is not readable: {e!r}")
        return out, None, path
    if op[0] == "get_fit_params":
        # get_fit_params persists the merged parameters (documented
        # side effect); only keys of the domain are tracked
        return out, nxt, path
    if nxt is None:
        viol("store-mismatch", f"file content left the written domain: {d}")
    elif list(nxt) != want:
        viol("store-mismatch", "file content differs from the reference "
             f"after the call: {nxt} vs {want}")
    return out, nxt, path


LEGACY_KEYS = ["model_key", "preprocessing", "range_type", "range_x",
               "rating regressor", "rating training set", "segment",
               "weight_cp"]


def legacy_check(path, state):
    """(B) render the legacy key set as key = value lines and load"""
    from nanite.cli.profile import Profile
    out = []
    d = json.load(open(path))
    lines = []
    exp = {}
    for k in LEGACY_KEYS:
        v = d[k]
        if isinstance(v, list):
            if not v:
                continue    # an empty list has no legacy rendering
            txt = ",".join(str(x) for x in v)
        else:
            txt = str(v)
        lines.append(f"{k} = {txt}")
        exp[k] = v
    for seg_txt in (None, "approach", "retract"):
        ll = list(lines)
        ee = dict(exp)
        if seg_txt:
            ll = [ln for ln in ll if not ln.startswith("segment")]
            ll.append(f"segment = {seg_txt}")
            ee["segment"] = 0 if seg_txt == "approach" else 1
        lp = new_path(".legacy.cfg")
        open(lp, "w").write("\n".join(ll) + "\n")
        try:
            pl = Profile(lp)
            got = {k: pl[k] for k in ee}
        except BaseException as e:
            out.append(V(PROP, "legacy-mismatch", site="Profile.load_legacy",
                         witness="raises", detail=f"{e!r} for {ll}",
                         case={"kind": "legacy", "lines": ll},
                         kind="legacy"))
            os.remove(lp)
            continue
        for k in ee:
            if cn.norm(got[k]) != cn.norm(ee[k]):
                out.append(V(PROP, "legacy-mismatch",
                             site="Profile.load_legacy", witness=k,
                             detail=f"{k}: legacy text loads to {got[k]!r}, "
                             f"JSON form holds {ee[k]!r}",
                             case={"kind": "legacy", "lines": ll},
                             kind="legacy"))
        os.remove(lp)
    return out


def _store_work(states):
    ops = store_ops()
    res = []
    for st in states:
        vs_all = []
        succ = []
        leg = None
        for op in ops:
            vs, nxt, path = store_transition(st, op)
            vs_all += vs
            if leg is None:
                leg = legacy_check(path, st)
                vs_all += leg
            os.remove(path)
            if not vs and nxt is not None:
                succ.append(nxt)
        res.append((st, vs_all, succ, len(ops)))
    return res


def store_part(rep, tier):
    bound = 2 if tier == "quick" else 3
    s0 = (0,) * len(SKEYS)
    seen = {s0}
    frontier = [s0]
    ntr = 0
    while frontier:
        jobs = chunks(frontier, max(4, len(frontier) // 64))
        frontier = []
        for res in pmap(_store_work, jobs, inline_below=1):
            for st, vs, succ, n in res:
                ntr += n
                rep.extend(vs)
                for nx in succ:
                    dev = sum(1 for a in nx if a != 0)
                    if nx not in seen and dev <= bound:
                        seen.add(nx)
                        frontier.append(nx)
    rep.add("states", len(seen))
    rep.add("transitions", ntr)
    rep.add("traces_validated_against_impl", ntr)
    rep.set("store", {"states": len(seen), "transitions": ntr,
                      "deviation_bound": bound, "closed_within_bound": True,
                      "legacy_renderings": len(seen) * 3})
    rep.sample({"store_state": dict(zip(SKEYS, sorted(seen)[-1])),
                "op": ["set", "range_x", 1]})


# ------------------------------------- (A2) several profiles, one process

PAIR_PROFILES = {
    "A": {"model_key": "sneddon_spher_approx", "fit param E value": 50.0,
          "fit param E vary": False},
    "B": {"model_key": "sneddon_spher_approx",
          "fit param R value": 1.6e-5, "fit param nu value": 0.4},
    "C": {"model_key": "sneddon_spher_approx"},
    "D": {"model_key": "hertz_cone", "fit param E value": 77.0,
          "fit param contact_point vary": False},
    "E": {"model_key": "hertz_cone"},
}


def pair_case(case):
    """the fit parameters of a profile are its model's defaults overridden
    by exactly *its own* entries - whatever other profiles were used in
    the process before"""
    from nanite.cli.profile import Profile, DEFAULTS
    from .. import state
    state.restore()
    out = []
    for k, name in enumerate(case["seq"]):
        path = new_path()
        d = dict(DEFAULTS)
        d.update(PAIR_PROFILES[name])
        with open(path, "w") as fd:
            json.dump(d, fd)
        try:
            P = Profile(path).get_fit_params()
            got = {p: (P[p].value, P[p].vary) for p in P}
        except BaseException as e:
            if isinstance(e, (KeyboardInterrupt, SystemExit, MemoryError)):
                raise
            got = repr(e)
        exp = ref_fit_params(d["model_key"], d)
        if not isinstance(got, dict) or set(got) != set(exp) or any(
                cn.norm(got[p]) != cn.norm(exp[p]) for p in exp):
            out.append(V(PROP, "fit-params", site="Profile.get_fit_params",
                         witness="profiles " + "->".join(case["seq"][:k + 1]),
                         detail=f"profile {name} (entries "
                         f"{PAIR_PROFILES[name]}) used after "
                         f"{case['seq'][:k]}: returned {got}, expected "
                         f"{exp}", case=case, kind="pair"))
            break
        os.remove(path)
    return out


def _pair_work(cases):
    return [pair_case(c) for c in cases]


def pair_part(rep, tier):
    names = sorted(PAIR_PROFILES)
    seqs = [list(q) for n in (2, 3) for q in itertools.product(names,
                                                                repeat=n)
            if n == 2 or tier != "quick"]
    cases = [{"kind": "pair", "seq": q} for q in seqs]
    n = 0
    for res in pmap(_pair_work, chunks(cases, 8), inline_below=1):
        for vs in res:
            n += 1
            rep.extend(vs)
    rep.set("profile_sequences", n)
    rep.add("transitions", n)
    rep.add("traces_validated_against_impl", n)


# ------------------------------------------------ (C) scripted setup

class Recorder(io.StringIO):
    pass


def prompt_id(section, prompt):
    p = prompt.strip()
    if p.startswith("- initial value for"):
        return "value:" + p.split()[4].split("[")[0]
    if p.startswith("vary "):
        return "vary:" + p.split()[1]
    if p.startswith("left"):
        return "left"
    if p.startswith("right"):
        return "right"
    if p.startswith("size"):
        return "weight"
    if p.startswith("training set"):
        return "ts"
    if "preprocessing" in section:
        return "preproc"
    if "model number" in section:
        return "model"
    if "range type" in section:
        return "range_type"
    if "regressor" in section:
        return "regressor"
    return "unknown:" + p[:20]


def run_setup(profile_path, answers):
    """drive setup_profile(); returns (asked prompt ids, times each was
    asked, exception or None)"""
    from nanite.cli import profile
    asked = []
    buf = io.StringIO()

    def fake_input(prompt=""):
        text = buf.getvalue()
        section = ""
        for ln in reversed(text.splitlines()):
            if ln.strip().endswith(":") and not ln.startswith(" "):
                section = ln.strip()
                break
        pid = prompt_id(section, prompt)
        first = pid not in asked
        asked.append(pid)
        if len(asked) > 200:
            raise RuntimeError("harness: setup does not terminate")
        if first and pid in answers:
            return answers[pid]
        return ""
    old_in, old_argv = builtins.input, sys.argv
    old_def = profile.Profile.__init__.__defaults__
    builtins.input = fake_input
    sys.argv = ["nanite-setup-profile"]
    profile.Profile.__init__.__defaults__ = (profile_path, True)
    exc = None
    try:
        with contextlib.redirect_stdout(buf):
            profile.setup_profile()
    except BaseException as e:
        if isinstance(e, (KeyboardInterrupt, SystemExit, RuntimeError)):
            raise
        exc = e
    finally:
        builtins.input = old_in
        sys.argv = old_argv
        profile.Profile.__init__.__defaults__ = old_def
    return asked, exc


def model_list():
    from nanite import model
    return sorted(model.models_available.keys())


def step_list():
    from nanite import preproc
    return [pp.identifier for pp in preproc.PREPROCESSORS]


def menus():
    c09.ensure_user_ts()
    m = collections.OrderedDict()
    m["preproc"] = ["1", "1,2,4", "1,4,2", "1,2,4,3", "1,4,5,6", "3,1", "4"]
    m["model"] = [str(i + 1) for i in range(len(model_list()))]
    # values inside the bounds of every model that has the parameter
    vals = {"E": ["2500", "1e4"], "R": ["5e-6", "2e-5"],
            "alpha": ["10", "25"], "nu": ["0", "0.3", "0.5"],
            "contact_point": ["0", "-1.5e-7", "1e-6"],
            "baseline": ["0", "-1e-10", "1e-9"]}
    for p in ("E", "R", "alpha", "nu", "contact_point", "baseline"):
        m["value:" + p] = vals[p]
        m["vary:" + p] = ["true", "False", "TRUE"]
    m["range_type"] = ["absolute", "relative", "relative cp", "Relative CP",
                       "absolute "]
    m["left"] = ["-2", "0", "0.5"]
    m["right"] = ["1", "0", "-0.5"]
    m["weight"] = ["0", "0.5", "2"]
    m["ts"] = ["zef18", c09.USER_TS, "no_such_label"]
    m["regressor"] = [str(i + 1) for i in range(7)]
    return m


START_PROFILES = {
    "default": None,
    "nondefault": {"model_key": "hertz_cone", "range_type": "relative cp",
                   "range_x": [-1e-6, 5e-7], "weight_cp": 0,
                   "preprocessing": P1 + ["correct_force_slope"],
                   "fit param E value": 1234.0, "fit param E vary": True,
                   "rating regressor": "Decision Tree"},
    "legacy": "legacy",
}


def make_start(name):
    path = new_path()
    sp = START_PROFILES[name]
    if sp == "legacy":
        shutil.copy("/repo/tests/data/cli-profile-1.7.8.cfg", path)
    elif sp is not None:
        from nanite.cli.profile import Profile
        pf = Profile(path)
        for k, v in sp.items():
            pf[k] = json.loads(json.dumps(v))
    return path


def expected_store(pid, ans, before, params_model):
    """what an accepted answer must store: list of (key, value, tol)"""
    steps = step_list()
    if pid == "preproc":
        return [("preprocessing", [steps[int(i) - 1]
                                   for i in ans.split(",")], 0)]
    if pid == "model":
        return [("model_key", model_list()[int(ans) - 1], 0)]
    if pid.startswith("value:"):
        return [(f"fit param {pid[6:]} value", float(ans), 0)]
    if pid.startswith("vary:"):
        return [(f"fit param {pid[5:]} vary", ans.strip().lower() == "true",
                 0)]
    if pid == "range_type":
        return [("range_type", ans, 0)]
    if pid == "left":
        return [("range_x[0]", float(ans) * 1e-6, 1e-12)]
    if pid == "right":
        return [("range_x[1]", float(ans) * 1e-6, 1e-12)]
    if pid == "weight":
        return [("weight_cp", float(ans) * 1e-6, 1e-12)]
    if pid == "ts":
        return [("rating training set", ans, 0)]
    if pid == "regressor":
        from nanite import rate
        return [("rating regressor", rate.reg_names[int(ans) - 1], 0)]
    raise RuntimeError("harness: unknown prompt id " + pid)


def getk(d, key):
    if key.startswith("range_x["):
        return d["range_x"][int(key[8])]
    return d.get(key, "<absent>")


def close(a, b, tol):
    if isinstance(a, (int, float)) and isinstance(b, (int, float)) \
            and not isinstance(a, bool) and not isinstance(b, bool):
        return abs(a - b) <= tol * max(abs(a), abs(b)) + (1e-18 if tol else 0)
    return cn.norm(a) == cn.norm(b)


def setup_case(case):
    """one script; returns (violations, produced profile dict or None)"""
    from nanite.cli.profile import Profile
    out = []
    path = make_start(case["start"])
    Profile(path)          # materialise defaults (what any reader sees)
    before = json.load(open(path)) if case["start"] != "legacy" \
        else Profile(path).load()
    before = json.loads(json.dumps(before))
    answers = dict(case["answers"])
    asked, exc = run_setup(path, answers)

    def viol(clause, wit, detail):
        out.append(V(PROP, clause, site="setup_profile", witness=wit,
                     detail=detail, case=case, kind="setup"))
    if exc is not None:
        viol("setup-raises", ",".join(sorted(answers)),
             f"setup_profile raised {exc!r} for well-formed answers "
             f"{answers}")
        os.remove(path)
        return out, None
    after = json.load(open(path))
    counts = collections.Counter(asked)
    accepted = {}
    for pid, ans in answers.items():
        if pid not in counts:
            continue            # prompt does not exist for this model
        if counts[pid] > 1:
            continue            # the prompt rejected the answer and re-asked
        accepted[pid] = ans
    touched = set()
    for pid, ans in accepted.items():
        for key, val, tol in expected_store(pid, ans, before, None):
            touched.add(key.split("[")[0] if key.startswith("range_x")
                        else key)
            got = getk(after, key)
            if not close(got, val, tol):
                viol("answer-not-stored", pid,
                     f"answered {ans!r} at prompt {pid}: the file holds "
                     f"{key} = {got!r}, expected {val!r}")
    # skipped prompts leave their key unchanged
    model_changed = after.get("model_key") != before.get("model_key")
    for key, old in before.items():
        if key in touched or key == "params_initial":
            continue
        if key == "range_x":
            for i, pid in ((0, "left"), (1, "right")):
                if pid in accepted:
                    continue
                if not close(after[key][i], old[i], 1e-12):
                    viol("answer-not-stored", "skipped:" + pid,
                         f"range_x[{i}] changed from {old[i]!r} to "
                         f"{after[key][i]!r} although the prompt was "
                         "skipped")
            continue
        if key.startswith("fit param") and model_changed:
            continue
        tol = 1e-12 if key == "weight_cp" else 0
        if key not in after or not close(after[key], old, tol):
            viol("answer-not-stored", "skipped:" + key,
                 f"{key} changed from {old!r} to "
                 f"{after.get(key, '<absent>')!r} although its prompt was "
                 "skipped")
    # fit-parameter entries that did not exist before and whose prompt was
    # skipped hold the selected model's default (nothing else was entered)
    from nanite import model as nmodel
    try:
        Pd = nmodel.get_init_parms(after.get("model_key"))
    except BaseException:
        Pd = None
    for key, val in after.items():
        if Pd is None or not key.startswith("fit param ") \
                or key in touched or key in before:
            continue
        name, what = key[len("fit param "):].rsplit(" ", 1)
        if name not in Pd or what not in ("value", "vary"):
            continue
        exp = Pd[name].value if what == "value" else Pd[name].vary
        if not close(val, exp, 1e-12):
            viol("answer-not-stored", "skipped:" + key,
                 f"{key} = {val!r} was stored although its prompt was "
                 f"skipped; the model's default is {exp!r}")
    os.remove(path)
    return out, after


def fit_case(profile_dict):
    """(D) a produced profile must be accepted by the batch fit"""
    from nanite.cli import rating
    from nanite.cli.profile import Profile
    out = []
    path = new_path()
    with open(path, "w") as fd:
        json.dump(profile_dict, fd)
    tr = synth.truth_params("hertz_para", E=3000.0, contact_point=2e-7,
                            baseline=1e-10)
    idnt = synth.make_curve("hertz_para", tr, n_app=300, n_ret=150,
                            x_start=2e-6, depth=1.5e-6, noise=3e-11, seed=1,
                            tilt=1e-5, innate_tip=False)
    case = {"kind": "fit", "profile": profile_dict}
    try:
        rating.fit_data(idnt, profile_path=path)
        ok = "params_fitted" in idnt.fit_properties or \
            idnt.fit_properties.get("success") is False
        if not ok:
            raise AssertionError("no fit result")
    except BaseException as e:
        if isinstance(e, (KeyboardInterrupt, SystemExit)):
            raise
        fitrel = {k: profile_dict.get(k) for k in
                  ("preprocessing", "range_type", "model_key")}
        out.append(V(PROP, "profile-rejected", site="fit_data",
                     witness=json.dumps(fitrel, sort_keys=True)[:100],
                     detail=f"the batch fit raises {e!r} for a profile the "
                     f"setup produced: {fitrel}", case=case, kind="fit"))
    os.remove(path)
    return out


def _setup_work(cases):
    res = []
    for c in cases:
        vs, prof = setup_case(c)
        res.append((vs, prof))
    return res


def _fit_work(profiles):
    res = []
    for p in profiles:
        res.append(fit_case(p))
    return res


def scripts(tier):
    m = menus()
    maxans = 2 if tier == "quick" else 3
    out = []
    for start in START_PROFILES:
        base_model = {"default": "sneddon_spher_approx",
                      "nondefault": "hertz_cone",
                      "legacy": "sneddon_spher_approx"}[start]
        out.append({"kind": "setup", "start": start, "answers": {}})
        pids = list(m)
        for n in range(1, maxans + 1):
            if n == 3 and start != "default":
                continue
            for combo in itertools.combinations(pids, n):
                # parameter prompts exist only for the active model
                model_after = base_model
                for menu_vals in itertools.product(*[m[p] for p in combo]):
                    ans = dict(zip(combo, menu_vals))
                    if "model" in ans:
                        model_after = model_list()[int(ans["model"]) - 1]
                    else:
                        model_after = base_model
                    if not _params_exist(ans, model_after):
                        continue
                    if n == 3 and not _thorough_triple(combo):
                        continue
                    out.append({"kind": "setup", "start": start,
                                "answers": ans})
    return out


_PK = {}


def _params_exist(ans, model_key):
    from nanite import model
    if model_key not in _PK:
        _PK[model_key] = list(model.get_init_parms(model_key).keys())
    for pid in ans:
        if pid.startswith(("value:", "vary:")):
            if pid.split(":")[1] not in _PK[model_key]:
                return False
    return True


def _thorough_triple(combo):
    """triples: restricted to the prompts that interact (pipeline, model,
    range type, interval, one parameter)"""
    core = {"preproc", "model", "range_type", "left", "right",
            "value:contact_point", "vary:E"}
    return set(combo) <= core


def stats_part(rep, tmp):
    """statistics.tsv: header + one row per curve with path, enum, E and
    round(rating, 1)"""
    from nanite.cli import rating
    from nanite.cli.profile import Profile
    from nanite import IndentationGroup
    n = 0
    folder = os.path.join(tmp, "data")
    os.makedirs(folder, exist_ok=True)
    shutil.copy("/repo/tests/data/fmt-jpk-fd_spot3-0192.jpk-force", folder)
    shutil.copy("/repo/tests/data/fmt-jpk-fd_map2x2_extracted."
                "jpk-force-map", folder)
    profiles = (("default", {}),
                ("cone", {"model_key": "hertz_cone",
                          "rating regressor": "Decision Tree",
                          "range_type": "relative cp",
                          "range_x": [-1e-6, 1e-6]}),
                ("retract", {"model_key": "hertz_para", "segment": 1,
                             "weight_cp": 0}))
    ppaths = {}
    for pname, settings in profiles:
        ppaths[pname] = os.path.join(tmp, f"prof_{pname}.cfg")
        pf = Profile(ppaths[pname])
        for k, v in settings.items():
            pf[k] = v
    import afmformats
    _exp = {}

    def expected(pname):
        if pname not in _exp:
            ppath = ppaths[pname]
            exp = []
            for pp in afmformats.find_data(folder,
                                           modality="force-distance"):
                for idnt in IndentationGroup(pp):
                    # the curve fitted through the library API with the
                    # values the profile returns (independent of the
                    # batch fit's own plumbing)
                    fresh = IndentationGroup(pp)[idnt.enum]
                    pfx = Profile(ppath)
                    fresh.apply_preprocessing(
                        preprocessing=pfx["preprocessing"],
                        options=pfx["preprocessing_options"])
                    fresh.fit_model(model_key=pfx["model_key"],
                                    params_initial=pfx.get_fit_params(),
                                    range_type=pfx["range_type"],
                                    range_x=pfx["range_x"],
                                    segment=pfx["segment"],
                                    weight_cp=pfx["weight_cp"])
                    E = fresh.fit_properties["params_fitted"]["E"].value
                    r = round(fresh.rate_quality(
                        training_set=pfx["rating training set"],
                        regressor=pfx["rating regressor"]), ndigits=1)
                    exp.append("\t".join([str(fresh.path), str(fresh.enum),
                                          str(E), str(r)]))
            _exp[pname] = exp
        return _exp[pname]
    # every sequence of one or two batch fits into one results directory:
    # the file describes the last run, one row per curve
    seqs = [(a,) for a, _ in profiles] \
        + [("default", "cone"), ("cone", "default"), ("cone", "cone"),
           ("retract", "default"), ("default", "retract")]
    for seq in seqs:
        outdir = os.path.join(tmp, "out_" + "_".join(seq))
        os.makedirs(outdir, exist_ok=True)
        case = {"kind": "stats", "profiles": list(seq)}
        wit = "->".join(seq)
        failed = False
        for pname in seq:
            try:
                rating.fit_perform(folder, outdir,
                                   profile_path=ppaths[pname])
            except BaseException as e:
                if isinstance(e, (KeyboardInterrupt, SystemExit)):
                    raise
                rep.violate(V(PROP, "profile-rejected", site="fit_perform",
                              witness=wit, detail=repr(e), case=case,
                              kind="stats"))
                failed = True
                break
        if failed:
            continue
        lines = open(os.path.join(outdir, "statistics.tsv")).read() \
            .splitlines()
        exp = expected(seq[-1])
        n += len(exp)
        if lines[0].split("\t") != ["path", "enum", "E", "rating"] \
                or lines[1:] != exp:
            rep.violate(V(PROP, "statistics-row", site="fit_perform",
                          witness=wit, detail=f"after batch fits {wit} into "
                          f"one results directory: rows {lines[1:3]} ... vs "
                          f"expected {exp[:2]} ... ({len(lines) - 1} rows "
                          f"for {len(exp)} curves)", case=case, kind="stats"))
    rep.set("statistics_rows_checked", n)
    rep.add("transitions", n)


def replay(doc):
    case = doc["case"]
    kind = doc.get("kind")
    if kind == "store":
        vs, _, path = store_transition(tuple(case["state"]),
                                       tuple(case["op"]))
        return vs
    if kind == "pair":
        return pair_case(case)
    if kind == "setup":
        return setup_case(case)[0]
    if kind == "fit":
        return fit_case(case["profile"])
    if kind == "legacy":
        rep = Report(PROP, "quick", LEVEL)
        store_part(rep, "quick")
        return [v for v in rep.violations if v["clause"] == "legacy-mismatch"]
    rep = Report(PROP, "quick", LEVEL)
    stats_part(rep, tmpdir())
    return rep.violations


def run(tier):
    rep = Report(PROP, tier, LEVEL)
    c09.ensure_user_ts()
    store_part(rep, tier)
    pair_part(rep, tier)
    cases = scripts(tier)
    produced = {}
    nasked = 0
    for res in pmap(_setup_work, chunks(shuffled(cases), 24)):
        for vs, prof in res:
            nasked += 1
            rep.extend(vs)
            if prof is not None:
                produced.setdefault(json.dumps(prof, sort_keys=True), prof)
    rep.add("transitions", nasked)
    rep.add("traces_validated_against_impl", nasked)
    rep.set("setup_scripts", nasked)
    rep.set("distinct_profiles_produced", len(produced))
    rep.sample(cases[1])
    rep.sample(cases[len(cases) // 2])
    # (D) distinct fit-relevant projections of the produced profiles
    fitrel = {}
    for js, prof in produced.items():
        key = json.dumps({k: v for k, v in prof.items()
                          if not k.startswith("rating")
                          and k != "params_initial"}, sort_keys=True)
        fitrel.setdefault(key, prof)
    profs = [p for p in fitrel.values()
             if p.get("model_key") != "sneddon_spher"]
    nfit = 0
    for res in pmap(_fit_work, chunks(shuffled(profs), 8)):
        for vs in res:
            nfit += 1
            rep.extend(vs)
    rep.set("profiles_fitted", nfit)
    rep.add("transitions", nfit)
    rep.add("states", len(produced))
    stats_part(rep, tmpdir())
    rep.set("exhaustive", True)
    rep.set("bounds", {"answered_prompts_max": 2 if tier == "quick" else 3,
                       "menus": menus()})
    rep.assumptions += [
        "answer menus hold only well-formed answers (what the on-screen "
        "text asks for); an answer that the prompt rejects (it asks again) "
        "is not an accepted answer",
        "profiles selecting the separately packaged compiled model "
        "'sneddon_spher' are stored/read but not fitted (DESIGN O9)",
        "unit conversion um->m is compared with relative tolerance 1e-12",
    ]
    return rep
