"""C15 - training sets load clean, aligned, and survive export.
Exhaustive enumeration of small training matrices over the alphabet
{finite value encoding (row, column), NaN, +inf, -inf} x response vectors x
flag combinations against a row-wise reference loader; all rating vectors
for the sample weights; export -> load round trip of a rating container."""
import itertools
import math
import os
import shutil
import tempfile

import numpy as np

from .. import canon as cn
from .. import grid, VERIF_ROOT
from ..core import Report, V
from . import c16

PROP = "C15"
LEVEL = "exploration"

FEATS = ["feat_con_bln_slope", "feat_con_apr_flatness", "feat_con_idt_sum"]
SYMS = ["v", "nan", "+inf", "-inf"]
FLAGS = list(itertools.product((True, False), repeat=3))

_TMP = None


def tmpdir():
    global _TMP
    if _TMP is None:
        base = "/dev/shm" if os.path.isdir("/dev/shm") else \
            os.path.join(VERIF_ROOT, "scratch")
        _TMP = tempfile.mkdtemp(prefix="verif_c15_", dir=base)
        # library code under test also creates temporary directories
        # (load_hdf5); keep them inside the per-run scratch directory
        tempfile.tempdir = _TMP
        import atexit
        atexit.register(shutil.rmtree, _TMP, True)
    return _TMP


def cell_value(sym, r, c):
    if sym == "v":
        # finite, distinct, sign depends on the column
        return (10.0 * (r + 1) + (c + 1) + 0.5) * (1 if c != 1 else -1)
    return {"nan": np.nan, "+inf": np.inf, "-inf": -np.inf}[sym]


def reference(M, y, names_req, replace_inf, impute, remove_nan):
    """row-by-row reference of the documented three steps.
    Returns (matrix rows, responses, undefined?)"""
    names_sorted = sorted(names_req)
    cols = [names_req.index(n) for n in names_sorted]
    rows = [[M[r][c] for c in cols] for r in range(len(M))]
    y = list(y)
    m = len(cols)
    if impute:
        new = [list(r) for r in rows]
        for c in range(m):
            refvals = [rows[r][c] for r in range(len(rows))
                       if y[r] == 0 and not math.isnan(rows[r][c])]
            for r in range(len(rows)):
                if y[r] == 0 and math.isnan(rows[r][c]) and refvals:
                    s = 0.0
                    for v in refvals:
                        s = s + v
                    new[r][c] = s / len(refvals) if not math.isnan(s) \
                        else float("nan")
        rows = new
    if remove_nan:
        keep = [i for i, r in enumerate(rows)
                if not any(math.isnan(v) for v in r)]
        rows = [rows[i] for i in keep]
        y = [y[i] for i in keep]
    if replace_inf:
        for c in range(m):
            col = [r[c] for r in rows]
            if any(math.isinf(v) for v in col):
                fin = [abs(v) for v in col
                       if not math.isinf(v) and not math.isnan(v)]
                if not fin:
                    return None, None, True     # no finite magnitude
                ext = max(fin)
                for r in rows:
                    if r[c] == math.inf:
                        r[c] = 2 * ext
                    elif r[c] == -math.inf:
                        r[c] = -2 * ext
    return rows, y, False


def matrix_case(case):
    """one directory (matrix + response), loaded with all flag sets"""
    from nanite.rate.rater import IndentationRater
    out = []
    n, m = case["n"], case["m"]
    syms = case["cells"]
    y = case["response"]
    names_req = FEATS[:m]            # deliberately unsorted
    M = [[cell_value(syms[r * m + c], r, c) for c in range(m)]
         for r in range(n)]
    if case.get("zero_col") is not None:
        # a feature whose finite values are all exactly 0 (e.g. a binary
        # criterion that fails for every curve)
        zc = case["zero_col"]
        for r in range(n):
            if syms[r * m + zc] == "v":
                M[r][zc] = 0.0
    d = tempfile.mkdtemp(dir=tmpdir())
    try:
        for c, nm in enumerate(names_req):
            np.savetxt(os.path.join(d, f"train_{nm}.txt"),
                       np.array([M[r][c] for r in range(n)]))
        np.savetxt(os.path.join(d, "train_response.txt"),
                   np.array(y, dtype=float))
        ndef = 0
        # the same directory is loaded with every flag set, forwards and
        # then backwards (a load must not depend on the loads before it);
        # a witness carries the loads made so far
        seq = case.get("flags") or (list(FLAGS) + list(FLAGS)[::-1])
        done = []
        for (rinf, imp, rnan) in seq:
            done.append([rinf, imp, rnan])
            sub = dict(case, flags=[list(f) for f in done])
            wit = f"n={n},m={m},flags={int(rinf)}{int(imp)}{int(rnan)}"

            def viol(clause, detail):
                out.append(V(PROP, clause, site="load_training_set",
                             witness=wit, detail=detail, case=sub,
                             kind="matrix"))
            rows, yy, undefined = reference(M, y, names_req, rinf, imp, rnan)
            if undefined:
                continue
            ndef += 1
            try:
                X, Y, names = IndentationRater.load_training_set(
                    path=d, names=list(names_req), replace_inf=rinf,
                    impute_zero_rated_nan=imp, remove_nan=rnan,
                    ret_names=True)
            except BaseException as e:
                if isinstance(e, (KeyboardInterrupt, SystemExit,
                                  MemoryError)):
                    raise
                viol("load-raises", f"{type(e).__name__}: {e} for matrix "
                     f"{M} / response {y}")
                continue
            if list(names) != sorted(names_req):
                viol("column-order", f"names {names}, requested "
                     f"{names_req}")
            X = np.atleast_2d(X)
            Y = np.atleast_1d(Y)
            exp = np.array(rows, dtype=float).reshape(len(rows), m)
            if X.shape != exp.shape or Y.shape[0] != len(yy):
                viol("drop", f"shape {X.shape} / {Y.shape}, reference "
                     f"{exp.shape} / {len(yy)} for matrix {M}, response {y}")
                continue
            if rinf and rnan and imp and (np.any(np.isnan(X))
                                          or np.any(np.isinf(X))):
                viol("nan-or-inf-left", f"result {X.tolist()}")
            if not np.array_equal(Y, np.array(yy, dtype=float)):
                viol("misaligned", f"responses {Y.tolist()}, reference "
                     f"{yy} (matrix {M}, response {y})")
            if not np.allclose(X, exp, rtol=1e-14, atol=0, equal_nan=True):
                # classify by what differs
                clause = "altered"
                bad = np.argwhere(~(np.isclose(X, exp, rtol=1e-14, atol=0,
                                               equal_nan=True)))[0]
                r0, c0 = int(bad[0]), int(bad[1])
                src = [names_req.index(nn) for nn in sorted(names_req)][c0]
                orig_syms = [syms[r * m + src] for r in range(n)]
                if any(s in ("+inf", "-inf") for s in orig_syms):
                    clause = "inf-replace"
                if "nan" in orig_syms:
                    clause = "impute"
                viol(clause, f"loaded {X.tolist()}, reference "
                     f"{exp.tolist()} (matrix {M}, response {y}, first "
                     f"difference at [{r0}, {c0}])")
    finally:
        shutil.rmtree(d, ignore_errors=True)
    nonfin = sum(1 for s in syms if s != "v")
    return out, ("matrix", nonfin > 0, ndef)


def weights_case(case):
    from nanite.rate.rater import IndentationRater
    out = []
    n = case["n"]
    cnt = 0
    vals = case["values"]
    for yv in itertools.product(vals, repeat=n):
        if yv[0] != case["first"]:
            continue
        cnt += 1
        y = np.array(yv, dtype=float)
        w = IndentationRater.compute_sample_weight(np.zeros((n, 1)), y)
        sub = dict(case, y=list(yv))

        def viol(clause, detail):
            out.append(V(PROP, clause, site="compute_sample_weight",
                         witness=f"n={n}", detail=detail, case=sub,
                         kind="weights"))
        if np.any(w < 0) or np.any(np.isnan(w)):
            viol("weights-negative", f"{w.tolist()} for {yv}")
        if not math.isclose(float(np.sum(w)), 1.0, rel_tol=1e-12):
            viol("weights-sum", f"sum {np.sum(w)!r} for {yv}")
        tot = {c: float(np.sum(w[y == c])) for c in set(yv)}
        ts = list(tot.values())
        if not max(ts) - min(ts) <= 1e-12:
            viol("weights-class", f"class totals {tot} for {yv}")
    return out, ("weights", cnt)


def export_case(case):
    """container -> export_training_set -> load_training_set"""
    from nanite.rate.io import RateManager, save_hdf5, load_hdf5
    from nanite.rate.rater import IndentationRater
    from nanite.rate.features import IndentationFeatures as IF
    out = []
    c16.ensure_fixtures()
    d = tempfile.mkdtemp(dir=tmpdir())

    def viol(clause, wit, detail):
        out.append(V(PROP, clause, site="export_training_set", witness=wit,
                     detail=detail, case=case, kind="export"))
    try:
        h5 = os.path.join(d, "c.h5")
        curves = case["curves"]
        for i, (cname, fname, rate) in enumerate(curves):
            idnt = c16.fitted(cname, fname)
            save_hdf5(h5, idnt, user_rate=rate, user_name="u",
                      user_comment=f"c{i}")
        rm_old = RateManager(h5)
        n_before = len(rm_old.ratings)          # fills its cache
        if case.get("rerate"):
            # the same curves rated again (same fit, other user rating),
            # and one more curve added
            for i, (cname, fname, rate) in enumerate(curves):
                save_hdf5(h5, c16.fitted(cname, fname),
                          user_rate=(rate + 3) % 11, user_name="v",
                          user_comment="again")
        order = load_hdf5(h5)
        ts = os.path.join(d, "ts_out")
        (rm_old if case.get("rerate") else RateManager(h5)) \
            .export_training_set(ts)
        names = IndentationRater.get_feature_names(which_type="continuous")
        X, Y = IndentationRater.load_training_set(
            path=ts, replace_inf=False, impute_zero_rated_nan=False,
            remove_nan=False)
        X = np.atleast_2d(X)
        Y = np.atleast_1d(Y)
        if X.shape[0] != len(curves):
            viol("export-roundtrip", "rows", f"{X.shape[0]} rows for "
                 f"{len(curves)} curves")
            return out, ("export", 0)
        exp_rates = [float(r["rating"]) for r in order]
        if Y.tolist() != exp_rates:
            viol("export-order", "responses", f"responses {Y.tolist()}, "
                 f"user ratings in container order {exp_rates}")
        nfeat = 0
        for i, r in enumerate(order):
            feats = IF.compute_features(r["data_set"],
                                        which_type="continuous")
            # the same curve as saved: compare with the original object too
            for j, nm in enumerate(names):
                a, b = float(X[i, j]), float(feats[j])
                nfeat += 1
                if math.isnan(b) != math.isnan(a):
                    viol("export-roundtrip", nm, f"NaN pattern differs: "
                         f"{a} vs {b}")
                elif not math.isnan(b):
                    tol = 0.5e-2 * 10 ** math.floor(
                        math.log10(abs(b))) if b != 0 else 0.0
                    if not abs(a - b) <= tol * 1.0000001:
                        viol("export-roundtrip", nm, f"loaded {a!r}, "
                             f"feature {b!r} (three significant digits "
                             f"allow {tol:.3e})")
    finally:
        shutil.rmtree(d, ignore_errors=True)
    return out, ("export", nfeat)


def export_folder_case(case):
    """a container that is a folder of rating files (several users, each
    with a file of his own; a curve may be rated in more than one file,
    with different fits) -> export_training_set -> load_training_set.
    Expected feature rows come from the objects that were stored (every
    entry has a rating of its own, which identifies its row)."""
    from nanite.rate.io import RateManager, save_hdf5
    from nanite.rate.rater import IndentationRater
    from nanite.rate.features import IndentationFeatures as IF
    out = []
    c16.ensure_fixtures()
    d = tempfile.mkdtemp(dir=tmpdir())

    def viol(clause, wit, detail):
        out.append(V(PROP, clause, site="export_training_set:folder",
                     witness=wit, detail=detail, case=case, kind="export"))
    nfeat = 0
    try:
        cont = os.path.join(d, "ratings")
        os.mkdir(cont)
        expected = {}
        for i, (cname, fname, rate, fn) in enumerate(case["curves"]):
            idnt = c16.fitted(cname, fname)
            expected[float(rate)] = [float(v) for v in IF.compute_features(
                idnt, which_type="continuous")]
            save_hdf5(os.path.join(cont, fn + ".h5"), idnt, user_rate=rate,
                      user_name=fn, user_comment=f"c{i}")
        rm = RateManager(cont)
        exp_rates = [float(r["rating"]) for r in rm.ratings]
        if sorted(exp_rates) != sorted(expected):
            viol("export-roundtrip", "entries", f"the container holds the "
                 f"ratings {sorted(exp_rates)}, stored {sorted(expected)}")
            return out, ("export", 0)
        ts = os.path.join(d, "ts_out")
        rm.export_training_set(ts)
        names = IndentationRater.get_feature_names(which_type="continuous")
        X, Y = IndentationRater.load_training_set(
            path=ts, replace_inf=False, impute_zero_rated_nan=False,
            remove_nan=False)
        X = np.atleast_2d(X)
        Y = np.atleast_1d(Y)
        if Y.tolist() != exp_rates:
            viol("export-order", "responses", f"responses {Y.tolist()}, "
                 f"user ratings in container order {exp_rates}")
            return out, ("export", 0)
        for i, rate in enumerate(Y.tolist()):
            feats = expected[rate]
            for j, nm in enumerate(names):
                a, b = float(X[i, j]), feats[j]
                nfeat += 1
                if math.isnan(b) != math.isnan(a):
                    viol("export-roundtrip", nm, f"NaN pattern differs: "
                         f"{a} vs {b}")
                elif not math.isnan(b):
                    tol = 0.5e-2 * 10 ** math.floor(
                        math.log10(abs(b))) if b != 0 else 0.0
                    if not abs(a - b) <= tol * 1.0000001:
                        viol("export-roundtrip", nm, f"row {i} (rating "
                             f"{rate}): loaded {a!r}, the stored curve has "
                             f"{b!r} (three significant digits allow "
                             f"{tol:.3e})")
    finally:
        shutil.rmtree(d, ignore_errors=True)
    return out, ("export", nfeat)


def case_fn(case):
    if case["kind"] == "export":
        fn = export_folder_case if case.get("folder") else export_case
        try:
            return fn(case)
        except BaseException as e:
            if isinstance(e, (KeyboardInterrupt, SystemExit, MemoryError)):
                raise
            # storing, loading, exporting and computing the features of
            # what was loaded are all library calls on valid input
            import traceback
            tb = traceback.extract_tb(e.__traceback__)
            where = next((f"{os.path.basename(f.filename)}:{f.name}"
                          for f in reversed(tb) if "/nanite/" in f.filename),
                         "?")
            return [V(PROP, "export-raises", site="export_training_set",
                      witness=type(e).__name__, detail=f"{e!r} in {where}",
                      case=case, kind="export")], ("export", 0)
    return {"matrix": matrix_case, "weights": weights_case,
            "export": export_case}[case["kind"]](case)


def cases(tier):
    cs = []
    if tier == "quick":
        shapes = [(1, 1), (2, 1), (2, 2), (3, 1), (3, 2), (2, 3)]
        maxnf = {(3, 2): 3, (2, 3): 3}
    else:
        shapes = [(1, 1), (1, 2), (2, 1), (2, 2), (3, 1), (3, 2), (2, 3),
                  (4, 1), (3, 3), (4, 2)]
        maxnf = {(3, 3): 3, (4, 2): 4}
    for (n, m) in shapes:
        resp_vals = (0, 3, 7) if n <= 2 else (0, 3)
        for cells in itertools.product(SYMS, repeat=n * m):
            nf = sum(1 for s in cells if s != "v")
            if (n, m) in maxnf and nf > maxnf[(n, m)]:
                continue
            for y in itertools.product(resp_vals, repeat=n):
                cs.append({"kind": "matrix", "n": n, "m": m,
                           "cells": list(cells), "response": list(y)})
                if n * m <= 4 and "nan" in cells and "v" in cells:
                    cs.append({"kind": "matrix", "n": n, "m": m,
                               "cells": list(cells), "response": list(y),
                               "zero_col": 0})
    for n in (1, 2, 3, 4):
        for first in range(11):
            cs.append({"kind": "weights", "n": n, "first": first,
                       "values": list(range(11))})
    exports = [
        [("A0", "f1", 5), ("B0", "f1", 0), ("B1", "f2", 9), ("C0", "f1", 3)],
        [("B1", "f3", 2), ("A0", "f2", 10)],
        [("C0", "f4", 7)],
        # half grades (user_rate is documented as a float)
        [("A0", "f1", 7.0), ("B0", "f1", 2.5), ("B1", "f2", 9.5)],
    ]
    for e in exports:
        cs.append({"kind": "export", "curves": e})
        cs.append({"kind": "export", "curves": e, "rerate": True})
    # folders of rating files; curves rated in two files with other fits
    folders = [
        [("A0", "f1", 5, "anna"), ("B0", "f1", 0, "anna"),
         ("B1", "f2", 9, "anna"), ("A0", "f3", 4, "bert"),
         ("B1", "f1", 8, "bert"), ("C0", "f1", 3, "bert")],
        [("B0", "f3", 2, "bert"), ("B0", "f1", 6, "anna"),
         ("B0", "f2", 7, "carl")],
        [("A0", "f1", 1, "anna"), ("B0", "f2", 10, "bert")],
    ]
    for e in folders:
        cs.append({"kind": "export", "folder": True, "curves": e})
    return cs


def replay(doc):
    return case_fn(doc["case"])[0]


def run(tier):
    rep = Report(PROP, tier, LEVEL)
    c16.ensure_fixtures()
    cs = cases(tier)
    cl = grid.run_cases(rep, __name__, "case_fn", cs, chunk=200,
                        label="cases")
    nm = sum(v for k, v in cl.items() if k[0] == "matrix")
    rep.set("matrices", nm)
    rep.set("matrix_loads_with_defined_reference",
            sum(k[2] * v for k, v in cl.items() if k[0] == "matrix"))
    rep.set("rating_vectors", sum(k[1] * v for k, v in cl.items()
                                  if k[0] == "weights"))
    rep.set("exported_feature_values", sum(k[1] * v for k, v in cl.items()
                                           if k[0] == "export"))
    rep.set("distinct_nontrivial",
            sum(v for k, v in cl.items() if k[0] == "matrix" and k[1]))
    rep.set("rule", "every matrix over {finite(row, col), NaN, +inf, -inf} "
            "for the listed shapes (larger shapes bounded in the number of "
            "non-finite cells) x every response vector x 8 flag sets; "
            "non-trivial = at least one non-finite cell")
    rep.set("exhaustive", True)
    rep.sample(cs[5])
    rep.sample(cs[len(cs) // 3])
    rep.sample(cs[-1])
    rep.assumptions += [
        "a column that holds only +-inf after row removal has no 'largest "
        "finite magnitude'; such loads are excluded (counted, not judged)",
        "finite cells encode (row, column), so alignment and column order "
        "are read off the values",
    ]
    return rep
