"""C08 - contact-point estimators return a usable, scale-independent
index.  Exhaustive grid over estimator x regular curve family x
transformation (positive scale, constant shift), a degenerate family, and
recorded curves."""
import itertools
import os

import numpy as np

from .. import grid, synth
from ..core import Report, V

PROP = "C08"
LEVEL = "exploration"

MODEL_E = {"hertz_para": 3000.0, "hertz_cone": 2.5e4, "hertz_pyr3s": 1e5,
           "sneddon_spher_approx": 3000.0,
           "power_layer_clifford_2009": 3000.0}
TRANSFORMS = [("scale", 2.0 ** -10), ("scale", 2.0), ("scale", 2.0 ** 30),
              ("scale", 0.37), ("scale", 3.3), ("scale", 1e9),
              ("shift", 3e-10), ("shift", -3e-10), ("shift", 1e-6),
              ("shift", -1e-6), ("both", (2.0 ** 5, 3e-10)),
              ("both", (0.37, -1e-6))]
#: stated accuracy on clean model curves, as a fraction of the curve
#: length (regression bounds, calibrated on the pinned tree with margin)
ACCURACY = {   # (baseline >= 1/2 of the approach, baseline 1/5)
    "deviation_from_baseline": (0.01, 0.01),
    "gradient_zero_crossing": (0.05, 0.06),
    "fit_constant_polynomial": (0.06, 0.09),
    "fit_line_polynomial": (0.06, 0.45),
    "fit_constant_line": (0.25, 0.45),
    "frechet_direct_path": (0.25, 0.50)}
RECORDED = [
    "fmt-jpk-fd_spot3-0192.jpk-force",
    "fmt-jpk-fd_single_tilted-baseline-drift-mitotic_2021-01-29.jpk-force",
    "fmt-jpk-fd_single_tilted-baseline-shift-adyp_2023-06-26.jpk-force",
]


def regular(case):
    """force array of a complete curve and the true contact index"""
    if case.get("recorded"):
        from nanite import IndentationGroup
        idnt = IndentationGroup("/repo/tests/data/" + case["recorded"])[0]
        return np.asarray(idnt["force"], dtype=float).copy(), None
    mk = case["model"]
    n = case["n"]
    depth = 1e-6
    frac = case["baseline_fraction"]
    x_start = depth * frac / (1 - frac)
    tr = synth.truth_params(mk, contact_point=0.0, baseline=1e-10,
                            **{("E_S" if mk.startswith("power") else "E"):
                               MODEL_E[mk]})
    arr = synth.make_arrays(mk, tr, n_app=n, n_ret=n // 2, x_start=x_start,
                            depth=depth)
    f = arr["force"]
    Fmax = float(f.max() - 1e-10)
    x = arr["tip position"]
    true_idx = int(np.argmax(x[:n] < 0))
    if case["tilt"]:
        f = f + case["tilt"] * Fmax * (x - x[0]) / (x_start + depth)
    if case["noise"]:
        f = f + np.random.RandomState(7).normal(0, case["noise"] * Fmax,
                                                f.size)
    if case.get("int_unit"):
        # force stored as whole multiples of a unit in an integer array
        # (detector counts, whole fN / pN)
        unit, dtype = INT_UNITS[case["int_unit"]]
        f = np.round(f / unit).astype(dtype)
    return f, true_idx


INT_UNITS = {"fN:int64": (1e-15, np.int64), "pN:int32": (1e-12, np.int32)}
#: transformations of integer arrays ("i..." keep the integer type)
TRANSFORMS_INT = [("scale", 1.0), ("scale", 0.5), ("scale", 2.0 ** 20),
                  ("scale", 0.37), ("scale", 3.3), ("iscale", 2),
                  ("iscale", 3), ("ishift", 1000), ("shift", 0.25),
                  ("shift", 1e5)]


def transform(f, tr):
    kind, val = tr
    if kind == "iscale":
        return f * f.dtype.type(val)
    if kind == "ishift":
        return f + f.dtype.type(val)
    if kind == "scale":
        return f * val
    if kind == "shift":
        return f + val
    return f * val[0] + val[1]


def regular_case(case):
    from nanite import poc
    out = []
    f, true_idx = regular(case)
    meth = case["method"]
    site = meth + (":" + case["int_unit"] if case.get("int_unit") else "")

    def viol(clause, wit, detail):
        out.append(V(PROP, clause, site=site, witness=wit, detail=detail,
                     case=case, kind="regular"))
    f0 = f.copy()
    try:
        idx = poc.compute_poc(f, method=meth)
    except BaseException as e:
        if isinstance(e, (KeyboardInterrupt, SystemExit, MemoryError)):
            raise
        viol("estimator-raises", "regular", repr(e))
        return out, ("raises",)
    if not np.array_equal(f, f0):
        viol("input-mutated", meth, "force array modified")
    if not (isinstance(idx, (int, np.integer)) and 0 <= idx < f.size):
        viol("index-valid", "regular", f"returned {idx!r} for an array of "
             f"length {f.size}")
        return out, ("invalid",)
    if true_idx is not None and not case["noise"] and not case["tilt"]:
        err = abs(int(idx) - true_idx) / f.size
        bound = ACCURACY[meth][0 if case["baseline_fraction"] >= 0.5 else 1]
        if not err <= bound:
            viol("accuracy", f"frac={case['baseline_fraction']:.2f}",
                 f"index {idx}, true contact {true_idx}: |d|/len = "
                 f"{err:.3f} > stated {bound}")
    moved = 0
    for tr in (TRANSFORMS_INT if case.get("int_unit") else TRANSFORMS):
        g = transform(f0, tr)
        try:
            j = poc.compute_poc(g, method=meth)
        except BaseException as e:
            if isinstance(e, (KeyboardInterrupt, SystemExit, MemoryError)):
                raise
            viol("estimator-raises", f"{tr}", repr(e))
            continue
        pow2 = tr[0] in ("scale", "iscale") \
            and np.log2(tr[1]) == int(np.log2(tr[1]))
        if pow2:
            if j != idx:
                viol("scale-pow2-exact", f"x{tr[1]}", f"index {j} after "
                     f"scaling by {tr[1]}, {idx} before")
        else:
            lim = 1
            if abs(int(j) - int(idx)) > lim:
                clause = "scale-within-one" if "scale" in tr[0] \
                    else "shift-within-one"
                viol(clause, f"{tr[0]}:{tr[1]}", f"index {j} after "
                     f"{tr[0]} {tr[1]}, {idx} before")
            moved += int(j != idx)
    return out, ("regular", moved)


DEGENERATE = {
    "constant": lambda n: np.ones(n) * 1e-9,
    "zeros": lambda n: np.zeros(n),
    "decreasing": lambda n: np.linspace(1e-9, 0, n),
    "no-baseline": lambda n: np.linspace(0, 1, n) ** 2 * 1e-9,
    "spike": lambda n: np.where(np.arange(n) == n // 2, 1e-9, 0.0),
    "max-at-0": lambda n: np.concatenate([[1e-9], np.linspace(0, 5e-10,
                                                              n - 1)])
    if n > 1 else np.array([1e-9]),
    "two-level": lambda n: np.where(np.arange(n) < n // 2, 0.0, 1e-9),
    # no baseline, concave (contact from the first sample on)
    "no-baseline-sqrt": lambda n: np.sqrt(np.linspace(0, 1, n)) * 1e-9,
    "no-baseline-tanh": lambda n: np.tanh(np.linspace(0, 3, n)) * 1e-9,
    "no-baseline-linear": lambda n: np.linspace(0, 1, n) * 1e-9,
    # a short approach (baseline + indentation) followed by a retract part
    # of the same length: the approach part is what an estimator sees
    "short-approach+retract": lambda n: np.concatenate([
        np.zeros(n // 2), np.linspace(0, 1e-9, n - n // 2 + 1)[1:],
        np.linspace(1e-9, 0, n)]),
    "noise-only+retract": lambda n: np.concatenate([
        1e-10 * np.sin(np.arange(n) * 1.7), [2e-10],
        1e-10 * np.sin(np.arange(n) * 2.3)]),
}
DEG_LENGTHS = [1, 2, 3, 4, 5, 6, 7, 8, 12, 60, 300]


def degenerate_case(case):
    from nanite import poc
    out = []
    meth = case["method"]
    f = DEGENERATE[case["shape"]](case["n"])
    mfunc = [m for m in poc.POC_METHODS if m.identifier == meth][0]

    def viol(clause, wit, detail):
        out.append(V(PROP, clause, site=meth, witness=wit, detail=detail,
                     case=case, kind="degenerate"))
    try:
        idx = poc.compute_poc(f.copy(), method=meth)
    except BaseException as e:
        if isinstance(e, (KeyboardInterrupt, SystemExit, MemoryError)):
            raise
        viol("degenerate-raises", f"{case['shape']}:n={case['n']}",
             f"{type(e).__name__}: {e} for a {case['shape']} array of "
             f"length {case['n']}")
        return out, ("raises",)
    try:
        idx2, det = poc.compute_poc(f.copy(), method=meth, ret_details=True)
        if idx2 != idx:
            viol("fallback-middle", "ret_details", f"{idx2} with details, "
                 f"{idx} without")
    except BaseException as e:
        if isinstance(e, (KeyboardInterrupt, SystemExit, MemoryError)):
            raise
        viol("degenerate-raises", f"{case['shape']}:n={case['n']}:details",
             f"{type(e).__name__}: {e}")
    # documented fallback: if the estimator itself returns NaN, the middle
    # of the data it has seen
    seen = poc.compute_preproc_clip_approach(f.copy()) \
        if "clip_approach" in mfunc.preprocessing else f.copy()
    if seen.size == 0 or np.ptp(seen) == 0:
        # nothing an estimator could work on: the fallback itself
        if idx != seen.size // 2:
            viol("fallback-middle", f"{case['shape']}:n={case['n']}",
                 f"the data the estimator works on ({seen.size} samples) "
                 f"are degenerate, but compute_poc gave {idx}, not their "
                 f"middle {seen.size // 2}")
        return out, ("fallback",)
    try:
        direct = mfunc(seen.copy())
        if isinstance(direct, float) and np.isnan(direct):
            if idx != seen.size // 2:
                viol("fallback-middle", f"{case['shape']}:n={case['n']}",
                     f"estimator returned NaN but compute_poc gave {idx}, "
                     f"not the middle {seen.size // 2}")
            return out, ("fallback",)
    except BaseException:
        pass
    return out, ("index",)


_PS = ["compute_tip_position", "correct_force_offset", "correct_tip_offset",
       "correct_force_slope"]
#: same step list, different options, on a strongly tilted curve (the
#: contact estimate of the tip-offset step decides which part of the curve
#: the slope correction treats as baseline)
TILT_REQUESTS = {
    "T1": (_PS, {"correct_tip_offset": {"method": "deviation_from_baseline"},
                 "correct_force_slope": {"region": "baseline",
                                         "strategy": "shift"}}, False),
    "T2": (_PS, {"correct_tip_offset": {"method": "fit_line_polynomial"},
                 "correct_force_slope": {"region": "baseline",
                                         "strategy": "shift"}}, False),
    "T3": (_PS, {"correct_tip_offset": {"method": "frechet_direct_path"},
                 "correct_force_slope": {"region": "all",
                                         "strategy": "drift"}}, False),
    "T4": (_PS[:3], {"correct_tip_offset": {"method": "fit_line_polynomial"}},
           False),
}


def api_case(case):
    """Indentation.estimate_contact_point_index after a history of
    pipelines (and an optional fit) == compute_poc on the *current* force"""
    from nanite import poc
    from . import c06
    out = []
    drv = c06.DRIVERS["synthetic"]
    if case.get("tilted"):
        tr = synth.truth_params("hertz_para", E=3000.0, contact_point=2e-7,
                                baseline=1e-10)
        idnt = synth.make_curve("hertz_para", tr, n_app=400, n_ret=200,
                                x_start=3e-6, depth=1e-6, noise=2e-11,
                                seed=2, tilt=2e-3, innate_tip=False)
    else:
        idnt = drv.fresh_idnt()
    meths = [p.identifier for p in poc.POC_METHODS]
    n = 0
    for step, rid in enumerate(case["requests"]):
        steps, options, _ = TILT_REQUESTS[rid] if case.get("tilted") \
            else c06.REQUESTS[rid]
        idnt.apply_preprocessing(list(steps),
                                 __import__("copy").deepcopy(options))
        if case["fit"]:
            try:
                idnt.fit_model(model_key="hertz_para")
            except BaseException:
                pass
        for m in meths:
            got = idnt.estimate_contact_point_index(method=m)
            want = poc.compute_poc(np.array(idnt["force"], copy=True), m)
            n += 1
            if got != want:
                out.append(V(PROP, "index-valid", site="estimate_contact_"
                             "point_index", witness=f"{m}:step{step}",
                             detail=f"after pipelines {case['requests'][:step+1]}"
                             f" the curve reports contact index {got}, the "
                             f"estimator gives {want} for the current force",
                             case=case, kind="api"))
    return out, ("api", n)


def case_fn(case):
    if case["kind"] == "regular":
        return regular_case(case)
    if case["kind"] == "api":
        return api_case(case)
    return degenerate_case(case)


def cases(tier):
    from nanite import poc
    meths = [p.identifier for p in poc.POC_METHODS]
    cs = []
    models = list(MODEL_E)
    noises = [0.0, 0.005, 0.02]
    fracs = [0.2, 0.5, 2 / 3]
    tilts = [0.0, 0.03]
    ns = [200, 1000]
    for mk, noise, frac, tilt, n in itertools.product(models, noises, fracs,
                                                      tilts, ns):
        if tier == "quick" and (
                (mk not in ("hertz_para", "hertz_cone") and (noise == 0.005
                                                            or tilt))
                or (n == 1000 and noise == 0.005)):
            continue
        for m in meths:
            cs.append({"kind": "regular", "method": m, "model": mk,
                       "noise": noise, "baseline_fraction": frac,
                       "tilt": tilt, "n": n})
    for f in RECORDED:
        for m in meths:
            cs.append({"kind": "regular", "method": m, "recorded": f})
    # a curve recorded at a high sampling rate (approach part longer than
    # 2**15 samples), contact in the second half
    for m in meths:
        cs.append({"kind": "regular", "method": m, "model": "hertz_para",
                   "noise": 0.0, "baseline_fraction": 2 / 3, "tilt": 0.0,
                   "n": 40000})
    for iu in INT_UNITS:
        for noise in (0.0, 0.02):
            for m in meths:
                cs.append({"kind": "regular", "method": m,
                           "model": "hertz_para", "noise": noise,
                           "baseline_fraction": 0.5, "tilt": 0.0, "n": 200,
                           "int_unit": iu})
    valid = ["V1", "V2", "V5", "V6", "V7"]
    for a in valid:
        for b in valid:
            for fit in (False, True):
                cs.append({"kind": "api", "requests": [a, b], "fit": fit})
    for a in TILT_REQUESTS:
        for b in TILT_REQUESTS:
            if a != b:
                for fit in (False, True):
                    cs.append({"kind": "api", "requests": [a, b],
                               "fit": fit, "tilted": True})
    for shape in DEGENERATE:
        for n in DEG_LENGTHS:
            for m in meths:
                cs.append({"kind": "degenerate", "method": m, "shape": shape,
                           "n": n})
    return cs


def replay(doc):
    return case_fn(doc["case"])[0]


def run(tier):
    rep = Report(PROP, tier, LEVEL)
    cs = cases(tier)
    cl = grid.run_cases(rep, __name__, "case_fn", cs, chunk=6,
                        label="arrays")
    rep.set("outcome_classes", {str(k): v for k, v in sorted(
        cl.items(), key=str)})
    rep.set("transformations_per_array", len(TRANSFORMS))
    rep.set("distinct_nontrivial",
            sum(v for k, v in cl.items() if k[0] in ("regular", "fallback",
                                                     "index", "api")))
    rep.set("rule", "full product estimator x model x noise x baseline "
            "fraction x tilt x length, 12 transformations each; degenerate "
            "family 7 shapes x 11 lengths; non-trivial = an index was "
            "returned and compared")
    rep.set("exhaustive", True)
    rep.set("accuracy_bounds", ACCURACY)
    rep.sample(cs[0])
    rep.sample(cs[-1])
    rep.sample([c for c in cs if c.get("recorded")][0])
    rep.assumptions += [
        "accuracy fractions are stated by this check per estimator "
        "(regression bounds on noise-free, tilt-free model curves)",
        "empty arrays are excluded (no index exists); index validity is "
        "asserted for the regular family only",
    ]
    return rep
