"""C14 - preprocessing order rules and auto-sorting: complete enumeration.

Explored: all ordered selections (no repetition) of the shipped steps
(1957 for 6 steps), each through autosort / check_order / apply, plus lists
with one unknown identifier inserted at every position (length <= 3).
Oracle: reference predicates written from the decorator metadata.
"""
import copy
import itertools

from ..core import Report, V, pmap, chunks, shuffled
from .. import state, synth

PROP = "C14"
LEVEL = "model_checking"


_META = None


def _meta():
    """step metadata (the statement of the rules), copied once per process
    before any library call of this check can have touched it"""
    global _META
    if _META is None:
        from nanite import preproc
        ids = [p.identifier for p in preproc.PREPROCESSORS]
        req = {p.identifier: list(p.steps_required or [])
               for p in preproc.PREPROCESSORS}
        opt = {p.identifier: list(p.steps_optional or [])
               for p in preproc.PREPROCESSORS}
        _META = (ids, req, opt)
    ids, req, opt = _META
    return list(ids), {k: list(v) for k, v in req.items()}, \
        {k: list(v) for k, v in opt.items()}


def ref_has_required(sel, req):
    return all(set(req[s]) <= set(sel) for s in sel)


def ref_order_ok(sel, req, opt):
    """required steps first, optional predecessors first when present"""
    pos = {s: i for i, s in enumerate(sel)}
    for s in sel:
        for r in req[s]:
            if r not in pos or pos[r] > pos[s]:
                return False
        for o in opt[s]:
            if o in pos and pos[o] > pos[s]:
                return False
    return True


def ref_apply_accepts(sel, req, known):
    """accepted iff every id is known and every step's required steps
    occur earlier in the list"""
    for i, s in enumerate(sel):
        if s not in known:
            return False
        if not set(req[s]) <= set(sel[:i]):
            return False
    return True


def _fresh():
    tr = synth.truth_params("hertz_para", E=3000.0, contact_point=1e-7,
                            baseline=1e-10)
    return synth.make_curve("hertz_para", tr, n_app=80, n_ret=80,
                            noise=1e-11, seed=3, innate_tip=False)


def check_sort_case(sel):
    """All sorting clauses for one ordered selection."""
    from nanite import preproc
    ids, req, opt = _meta()
    out = []
    sel = list(sel)
    case = {"kind": "sort", "sel": sel}

    def viol(clause, detail, site="autosort"):
        out.append(V(PROP, clause, site=site, witness=",".join(sel),
                     detail=detail, case=case, kind="sort"))
    admissible = ref_has_required(sel, req)
    valid_ref = admissible and ref_order_ok(sel, req, opt)
    # check_order against reference (for admissible lists)
    try:
        preproc.check_order(list(sel))
        co = True
    except ValueError:
        co = False
    except BaseException as e:
        co = None
        if admissible:
            viol("check-order-raises", repr(e), site="check_order")
    if admissible and co is not None and co != valid_ref:
        viol("check-order-differs",
             f"check_order says {co}, reference says {valid_ref}",
             site="check_order")
    if not admissible:
        return out, {"admissible": 0, "valid": 0}
    before = copy.copy(sel)
    try:
        res = preproc.autosort(sel)
    except BaseException as e:
        viol("sort-raises", repr(e))
        return out, {"admissible": 1, "valid": int(valid_ref)}
    if sel != before:
        viol("sort-mutates-input", f"{before} -> {sel}")
    if sorted(res) != sorted(before) or len(res) != len(before):
        viol("sort-not-permutation", f"{before} -> {res}")
    elif not ref_order_ok(res, req, opt):
        viol("sort-invalid", f"{before} -> {res}")
    else:
        try:
            preproc.check_order(list(res))
        except BaseException as e:
            viol("sort-invalid", f"check_order rejects {res}: {e!r}")
    try:
        res2 = preproc.autosort(list(res))
        if res2 != res:
            viol("sort-not-idempotent", f"{res} -> {res2}")
    except BaseException as e:
        viol("sort-not-idempotent", f"second sort raises {e!r}")
    if valid_ref and res != before:
        viol("sort-changes-valid", f"{before} -> {res}")
    return out, {"admissible": 1, "valid": int(valid_ref),
                 "moved": int(res != before)}


def check_apply_case(sel):
    """`preproc.apply` accepts iff every required step occurs earlier."""
    from nanite import preproc
    ids, req, opt = _meta()
    sel = list(sel)
    case = {"kind": "apply", "sel": sel}
    out = []
    expect = ref_apply_accepts(sel, req, set(ids))
    stats = {"accepted": 0, "rejected": 0}
    # the ways of handing the list to the function (the deprecated keyword
    # and the deprecated class are still supported)
    ways = {
        "preproc.apply": lambda i: preproc.apply(i, list(sel), options={}),
        "preproc.apply:identifiers=": lambda i: preproc.apply(
            i, identifiers=list(sel), options={}),
        "preproc.apply:preproc_names=": lambda i: preproc.apply(
            i, preproc_names=list(sel), options={}),
        "IndentationPreprocessor.apply": lambda i:
            preproc.IndentationPreprocessor.apply(i, list(sel), options={}),
        "IndentationPreprocessor.apply:preproc_names=": lambda i:
            preproc.IndentationPreprocessor.apply(
                i, preproc_names=list(sel), options={}),
    }
    for site, call in ways.items():
        out += _check_apply_way(site, call, sel, expect, ids, req, case)
        stats["accepted" if expect else "rejected"] += 1
    return out, stats


def _check_apply_way(site, call, sel, expect, ids, req, case):
    import warnings
    out = []
    idnt = _fresh()
    try:
        with warnings.catch_warnings():
            warnings.simplefilter("ignore", DeprecationWarning)
            call(idnt)
        got, err = True, None
    except (ValueError, KeyError) as e:
        got, err = False, e
    except BaseException as e:
        # a step failing for another reason is not an order decision
        got, err = None, e
    unknown = [s for s in sel if s not in ids]
    if got is None:
        out.append(V(PROP, "apply-crashes", site=site,
                     witness=",".join(sel), detail=repr(err), case=case,
                     kind="apply"))
    elif got and not expect:
        clause = "unknown-accepted" if unknown else "apply-accepts-bad"
        out.append(V(PROP, clause, site=site,
                     witness=",".join(sel),
                     detail="accepted although the reference rejects",
                     case=case, kind="apply"))
    elif (not got) and expect:
        out.append(V(PROP, "apply-rejects-good", site=site,
                     witness=",".join(sel), detail=repr(err), case=case,
                     kind="apply"))
    elif (not got) and unknown and not isinstance(err, KeyError):
        # documented: unknown identifiers -> KeyError; only flagged if the
        # first offending element is the unknown one
        first_bad = None
        for i, s in enumerate(sel):
            if s not in ids or not set(req[s]) <= set(sel[:i]):
                first_bad = s
                break
        if first_bad in unknown:
            out.append(V(PROP, "unknown-wrong-error", site=site,
                         witness=",".join(sel), detail=repr(err), case=case,
                         kind="apply"))
    return out


def check_unknown_case(sel):
    """unknown identifiers are rejected by the order functions, too"""
    from nanite import preproc
    out = []
    sel = list(sel)
    case = {"kind": "unknown", "sel": sel}
    for fname in ("autosort", "check_order"):
        try:
            ret = getattr(preproc, fname)(list(sel))
            out.append(V(PROP, "unknown-accepted", site=fname,
                         witness=",".join(sel), detail=f"{fname} returned "
                         f"{ret!r} for a list with an unknown identifier",
                         case=case, kind="unknown"))
        except KeyError:
            pass
        except ValueError:
            # a known step of the list misses a requirement: also a rejection
            pass
        except BaseException as e:
            out.append(V(PROP, "unknown-wrong-error", site=fname,
                         witness=",".join(sel), detail=repr(e), case=case,
                         kind="unknown"))
    # ... and by the curve's own entry point, every time it is asked
    if len(sel) <= 3:
        idnt = _fresh()
        for attempt in (1, 2, 3):
            try:
                idnt.apply_preprocessing(list(sel))
                out.append(V(PROP, "unknown-accepted",
                             site="Indentation.apply_preprocessing",
                             witness=",".join(sel) + f":attempt{attempt}",
                             detail=f"request number {attempt} for a list "
                             "with an unknown identifier was accepted",
                             case=case, kind="unknown"))
                break
            except (KeyError, ValueError):
                pass
            except BaseException as e:
                out.append(V(PROP, "unknown-wrong-error",
                             site="Indentation.apply_preprocessing",
                             witness=",".join(sel), detail=repr(e),
                             case=case, kind="unknown"))
                break
    return out, {"rejected": int(not out)}


def _case(kind, sel):
    """one case, followed by a look at the list of available steps: it is
    still the complete list in a valid order (whatever was requested)"""
    from nanite import preproc
    fn = {"unknown": check_unknown_case, "sort": check_sort_case}.get(
        kind, check_apply_case)
    vs, st = fn(sel)
    ids, req, opt = _meta()
    try:
        av = list(preproc.available())
        ok = ref_order_ok(av, req, opt) and sorted(av) == sorted(ids)
    except BaseException as e:
        if isinstance(e, (KeyboardInterrupt, SystemExit, MemoryError)):
            raise
        av, ok = repr(e), False
    if not ok:
        vs = vs + [V(PROP, "available-invalid", site="available:after-" + kind,
                     witness=",".join(sel), detail="after the request the "
                     f"list of available steps is {av}",
                     case={"kind": kind, "sel": list(sel)}, kind=kind)]
    return vs, st


def _work(chunk):
    res = []
    for kind, sel in chunk:
        state.restore("nanite.preproc")     # every case starts pristine
        res.append((kind, sel) + _case(kind, sel))
    return res


def pair_work(args):
    """history (in)dependence of autosort within one process: for a step
    set, every ordered pair (l1, l2) of its orderings - or, for the large
    sets in the quick tier, two sequential sweeps - `autosort(l1)` is
    called and then every sorting clause is checked on l2."""
    from nanite import preproc
    steps, all_pairs = args
    ids, req, opt = _meta()
    perms = [list(p) for p in itertools.permutations(steps)]
    if not perms or not ref_has_required(perms[0], req):
        return [], 0
    out = []
    n = 0
    if all_pairs:
        seq = [(l1, l2) for l1 in perms for l2 in perms]
    else:
        seq = list(zip(perms[:-1], perms[1:])) \
            + list(zip(perms[::-1][:-1], perms[::-1][1:]))
    for l1, l2 in seq:
        # the module state of a fresh interpreter, then exactly two calls
        state.restore("nanite.preproc")
        try:
            preproc.autosort(list(l1))
        except BaseException:
            pass
        vs, _ = check_sort_case(l2)
        n += 1
        for v in vs:
            v["case"] = {"kind": "pair", "first": l1, "sel": l2}
            v["site"] = "autosort-after-autosort"
        out += vs
        if len(out) >= 20:
            break
    return out, n


def _judge(l2, req, opt):
    """None if autosort(l2) satisfies the reference predicates"""
    from nanite import preproc
    try:
        r = preproc.autosort(list(l2))
        if sorted(r) != sorted(l2):
            return ("sort-not-permutation", f"{l2} -> {r}")
        if not ref_order_ok(r, req, opt):
            return ("sort-invalid", f"{l2} -> {r}")
        if ref_order_ok(l2, req, opt) and r != list(l2):
            return ("sort-changes-valid", f"{l2} -> {r}")
    except BaseException as e:
        return ("sort-raises", repr(e))
    return None


def cross_work(args):
    """history (in)dependence across step sets: from the module state of a
    fresh interpreter, autosort(l1) is called and then l2 is judged."""
    from nanite import preproc
    firsts, seconds = args
    ids, req, opt = _meta()
    out = []
    n = 0
    for l1 in firsts:
        for l2 in seconds:
            state.restore("nanite.preproc")
            try:
                preproc.autosort(list(l1))
            except BaseException:
                pass
            after = _judge(l2, req, opt)
            n += 1
            if after is not None:
                case = {"kind": "pair", "first": list(l1), "sel": list(l2)}
                out.append(V(PROP, after[0], site="autosort-after-autosort",
                             witness=",".join(l2), detail=f"after "
                             f"autosort({l1}): {after[1]}", case=case,
                             kind="sort"))
                if len(out) >= 20:
                    return out, n
    return out, n


def replay(doc):
    from nanite import preproc
    _meta()        # snapshot the rules before any library call
    state.snapshot()
    case = doc["case"]
    if case["kind"] == "pair":
        try:
            preproc.autosort(list(case["first"]))
        except BaseException:
            pass
        return check_sort_case(case["sel"])[0]
    return _case(case["kind"], case["sel"])[0]


def run(tier):
    from nanite import preproc
    rep = Report(PROP, tier, LEVEL)
    ids, req, opt = _meta()
    state.snapshot()
    sels = [list(s) for k in range(len(ids) + 1)
            for s in itertools.permutations(ids, k)]
    rep.set("ordered_selections", len(sels))
    work = [("sort", s) for s in sels] + [("apply", s) for s in sels]
    # lists with an unknown identifier at every position
    maxlen = 3 if tier == "quick" else 4
    unk = []
    for s in sels:
        if len(s) <= maxlen:
            for pos in range(len(s) + 1):
                unk.append(s[:pos] + ["no_such_step"] + s[pos:])
    work += [("apply", s) for s in unk]
    work += [("unknown", s) for s in unk]
    rep.set("lists_with_unknown_identifier", len(unk))
    # the available() list itself
    av = list(preproc.available())
    if not ref_order_ok(av, req, opt) or sorted(av) != sorted(ids):
        rep.violate(V(PROP, "available-invalid", site="available",
                      witness=",".join(av), detail=str(av),
                      case={"kind": "sort", "sel": av}, kind="sort"))
    results = pmap(_work, chunks(shuffled(work), 60))
    outcomes = set()
    for chunk in results:
        for kind, sel, vs, st in chunk:
            rep.add("transitions")
            rep.add("evaluations")
            rep.extend(vs)
            for k, v in st.items():
                rep.add(f"{kind}_{k}", v)
            outcomes.add((kind, tuple(sorted(st.items())), len(vs) > 0))
    # sequences of two autosort calls on orderings of the same step set
    limit = 4 if tier == "quick" else 6
    pjobs = []
    for k in range(1, len(ids) + 1):
        for steps in itertools.combinations(ids, k):
            pjobs.append((list(steps), k <= limit))
    npairs = 0
    for vs, n in pmap(pair_work, shuffled(pjobs)):
        rep.extend(vs)
        npairs += n
    # ... and across step sets: every admissible list after every
    # admissible list (quick: first lists with at most 4 steps)
    adm = [s_ for s_ in sels if ref_has_required(s_, req)]
    firsts = [s_ for s_ in adm if tier != "quick" or len(s_) <= 4]
    cjobs = [(firsts[i:i + 6], adm) for i in range(0, len(firsts), 6)]
    ncross = 0
    for vs, n in pmap(cross_work, shuffled(cjobs)):
        rep.extend(vs)
        ncross += n
    npairs += ncross
    rep.set("autosort_cross_set_pairs", ncross)
    rep.add("transitions", npairs)
    rep.add("evaluations", npairs)
    rep.set("autosort_call_pairs", npairs)
    rep.set("states", len(sels))
    rep.set("traces_validated_against_impl", rep.cov["transitions"])
    rep.set("distinct_nontrivial", rep.cov.get("sort_moved", 0)
            + rep.cov.get("apply_rejected", 0))
    rep.set("rule", "all ordered selections of the registered steps; "
            "non-trivial = autosort had to move a step, or apply rejected")
    rep.set("distinct_outcome_classes", len(outcomes))
    rep.set("exhaustive", True)
    rep.set("bounds", {"steps": ids, "unknown_insertions_max_len": maxlen,
                       "all_ordered_pairs_up_to_set_size": limit})
    rep.sample({"op": "autosort", "input": sels[-1],
                "output": _safe_sort(sels[-1])})
    rep.sample({"op": "autosort", "input": sels[500],
                "admissible": ref_has_required(sels[500], req)})
    rep.sample({"op": "apply", "input": unk[7]})
    rep.assumptions += [
        "state = an ordered selection; transitions = one real call of "
        "autosort/check_order/apply per selection",
        "reference predicates are derived from the steps_required / "
        "steps_optional metadata of the registered steps",
    ]
    return rep


def _safe_sort(sel):
    from nanite import preproc
    try:
        return preproc.autosort(list(sel))
    except BaseException as e:
        return repr(e)
