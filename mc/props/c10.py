"""C10 - arguments are taken by value.  HIST search in twin mode: the
aliased run hands the *same* long-lived objects to the API again and
again (and edits them in place in between); the twin run executes the same
history but hands each call a deep copy.  Both must agree after every op,
and no call may modify its arguments."""
import copy
import json

import numpy as np

from .. import canon as cn
from .. import hist, ops, synth
from ..core import Report, V, pmap, chunks, shuffled

PROP = "C10"
LEVEL = "model_checking"

P1 = ["compute_tip_position", "correct_force_offset", "correct_tip_offset"]


class World:
    pass


def _initial_args():
    from nanite import model as nmodel
    PI = nmodel.models_available["hertz_para"].get_parameter_defaults()
    PI["contact_point"].set(value=1e-7)
    return {
        "L": ["compute_tip_position", "correct_tip_offset"],
        "O": {"correct_tip_offset": {"method": "deviation_from_baseline"}},
        "PI": PI,
        "RX": [-5e-7, 1e-6],
        "MK": {"max_nfev": 6},
        "NM": ["feat_con_apr_flatness", "feat_con_apr_size",
               "feat_con_bln_slope"],
        "TS": _training_tuple(),
    }


_TS = []


def _training_tuple():
    """an in-memory training set (samples, response) of the caller's"""
    if not _TS:
        from nanite.rate.rater import IndentationRater
        X, y = IndentationRater.load_training_set(
            IndentationRater.get_training_set_path("zef18"))
        _TS.append((np.array(X[::3], copy=True), np.array(y[::3], copy=True)))
    return (_TS[0][0].copy(), _TS[0][1].copy())


#: call ops: (api, {kwarg: arg-name or literal})
CALLS = {
    "pre": ("apply_preprocessing", {"preprocessing": "@L", "options": "@O"}),
    "pre_details": ("apply_preprocessing", {"preprocessing": "@L",
                                            "options": "@O",
                                            "ret_details": True}),
    "fit": ("fit_model", {}),
    "fit_pi": ("fit_model", {"params_initial": "@PI"}),
    "fit_rx": ("fit_model", {"range_x": "@RX"}),
    "fit_mk": ("fit_model", {"method": "nelder", "method_kws": "@MK"}),
    "fit_lsq": ("fit_model", {"method": "leastsq", "method_kws": {}}),
    "fit_pre": ("fit_model", {"preprocessing": "@L",
                              "preprocessing_options": "@O"}),
    "fit_k": ("fit_model", {"gcf_k": 0.5, "params_initial": "@PI"}),
    "fit_k1": ("fit_model", {"gcf_k": 1.0}),
    "fit_rel": ("fit_model", {"range_type": "relative cp",
                              "range_x": "@RX"}),
    "fit_abs": ("fit_model", {"range_type": "absolute"}),
    "fit_plat": ("fit_model", {"optimal_fit_edelta": True,
                               "optimal_fit_num_samples": 7,
                               "range_x": "@RX"}),
    "fit_noplat": ("fit_model", {"optimal_fit_edelta": False}),
    "get_pi": ("get_initial_fit_parameters", {}),
    "rate": ("rate_quality", {"regressor": "Decision Tree",
                              "training_set": "zef18", "names": "@NM"}),
    "rate_ts": ("rate_quality", {"regressor": "Extra Trees",
                                 "training_set": "@TS"}),
    "rate_ts_dt": ("rate_quality", {"regressor": "Decision Tree",
                                    "training_set": "@TS"}),
}

EDITS = {
    "L+=offset": ("L", lambda a: a.insert(1, "correct_force_offset")
                  if "correct_force_offset" not in a else a.remove(
                      "correct_force_offset")),
    "O.method": ("O", lambda a: a["correct_tip_offset"].__setitem__(
        "method", "fit_constant_line"
        if a["correct_tip_offset"]["method"] != "fit_constant_line"
        else "deviation_from_baseline")),
    "PI.E*=2": ("PI", lambda a: a["E"].set(value=a["E"].value * 2)),
    "PI.R": ("PI", lambda a: a["R"].set(
        value=5e-6 if a["R"].value != 5e-6 else 10e-6)),
    "PI.baseline.vary": ("PI", lambda a: a["baseline"].set(
        vary=not a["baseline"].vary)),
    "PI.cp": ("PI", lambda a: a["contact_point"].set(
        value=3e-7 if a["contact_point"].value != 3e-7 else 1e-7)),
    # small edits in SI units (0.2 nN, 5 nm): still changes
    "PI.b+=2e-10": ("PI", lambda a: a["baseline"].set(
        value=a["baseline"].value + 2e-10)),
    "PI.R+=5e-9": ("PI", lambda a: a["R"].set(
        value=a["R"].value + 5e-9)),               # a fixed parameter
    "RX[0]": ("RX", lambda a: a.__setitem__(
        0, -9e-7 if a[0] != -9e-7 else -5e-7)),
    "MK.max_nfev": ("MK", lambda a: a.__setitem__(
        "max_nfev", 400 if a["max_nfev"] != 400 else 6)),
    # the caller re-labels / rescales his in-memory training set in place
    "TS.y": ("TS", lambda a: a[1].__setitem__(
        slice(None), (a[1] * 7 + 3) % 11)),
    "TS.X": ("TS", lambda a: a[0].__setitem__(
        (slice(None), 0), a[0][:, 0] * 1.5 + 0.1)),
    "NM+=feat": ("NM", lambda a: a.append("feat_con_idt_sum")
                 if "feat_con_idt_sum" not in a
                 else a.remove("feat_con_idt_sum")),
}


def _resolve(kw, args, by_copy):
    out = {}
    used = []
    for k, v in kw.items():
        if isinstance(v, str) and v.startswith("@"):
            used.append(v[1:])
            out[k] = copy.deepcopy(args[v[1:]]) if by_copy else args[v[1:]]
        else:
            out[k] = copy.deepcopy(v)
    return out, used


def _call(idnt, api, kwargs):
    m0 = ops.Counters.minimize
    try:
        ret = getattr(idnt, api)(**kwargs)
        exc = None
    except BaseException as e:
        if isinstance(e, (KeyboardInterrupt, SystemExit, MemoryError)):
            raise
        ret, exc = None, type(e).__name__
    return ret, exc, ops.Counters.minimize - m0


class Twin(hist.Driver):
    prop = PROP
    name = "twin"

    def __init__(self, calls=None, edits=None, name=None, prefit=False):
        calls = calls or [c for c in CALLS if not c.startswith("rate_ts")]
        edits = edits or [e for e in EDITS if not e.startswith("TS.")]
        self.ops = [["call", c] for c in calls] + [["edit", e] for e in edits]
        self.prefit = prefit
        if name:
            self.name = name

    def fresh_idnt(self):
        tr = synth.truth_params("hertz_para", E=3000.0, contact_point=2e-7,
                                baseline=1e-10)
        return synth.make_curve("hertz_para", tr, n_app=150, n_ret=150,
                                noise=2e-11, seed=1, tilt=0.0,
                                innate_tip=False)

    def fresh(self):
        ops.install_counters()
        w = World()
        w.a = self.fresh_idnt()
        w.t = self.fresh_idnt()
        w.args_a = _initial_args()
        w.args_t = _initial_args()
        w.dirty = set()
        w.viol = []
        if self.prefit:
            for c in (w.a, w.t):
                c.apply_preprocessing(["compute_tip_position",
                                       "correct_tip_offset"])
                c.fit_model(model_key="hertz_para")
        return w

    def apply(self, w, op):
        stats = {}
        if op[0] == "edit":
            name, fn = EDITS[op[1]]
            fn(w.args_a[name])
            fn(w.args_t[name])
            w.dirty.add(name)
            return {"ok": True, "_stats": {}}
        api, kw = CALLS[op[1]]
        ka, used = _resolve(kw, w.args_a, by_copy=False)
        kt, _ = _resolve(kw, w.args_t, by_copy=True)
        before = {n: cn.digest(w.args_a[n]) for n in w.args_a}
        tc0 = cn.indent_canon(w.t)
        ra, ea, na = _call(w.a, api, ka)
        rt, et, nt = _call(w.t, api, kt)
        after = {n: cn.digest(w.args_a[n]) for n in w.args_a}
        w.viol = []
        for n in before:
            if before[n] != after[n]:
                w.viol.append(("argument-mutated", api, n,
                               f"{api} modified caller object {n}"
                               + (" (passed)" if n in used
                                  else " (not even passed to this call)")))
        if api == "get_initial_fit_parameters":
            if ea is None and et is None:
                if cn.digest(ra) != cn.digest(rt):
                    w.viol.append(("alias-differs-from-twin", api, "return",
                                   "returned parameters differ from twin"))
                # the caller keeps the returned object and edits it later
                w.args_a["PI"] = ra
                w.args_t["PI"] = copy.deepcopy(rt)
                w.dirty.discard("PI")
        elif api == "rate_quality":
            if (ea, None if ra is None else float(ra)) != \
                    (et, None if rt is None else float(rt)):
                w.viol.append(("alias-differs-from-twin", api, "return",
                               f"rating {ra} ({ea}) vs twin {rt} ({et})"))
        if ea != et:
            w.viol.append(("alias-differs-from-twin", api, "exception",
                           f"aliased run: {ea}, by-value twin: {et}"))
        tc1 = cn.indent_canon(w.t)
        passed = dict(w.__dict__.setdefault("passed", {}))
        if api == "fit_model" and et is None:
            for n in used:
                w.passed[n] = before[n]
        for n in used:
            if n in w.dirty:
                w.dirty.discard(n)
                if tc1 != tc0:
                    stats["effective_edit:" + n] = 1
                if n == "PI" and api == "fit_model" and et is None \
                        and nt == 0 and passed.get(n) != before[n]:
                    # the initial parameters have other values than when
                    # they were last handed to a fit (edits that cancel
                    # each other are no change): the fit that is handed
                    # them now must notice and optimise again
                    w.viol.append(("edit-not-noticed", api, n,
                                   "initial parameters were edited and "
                                   "passed again (to the by-value twin as "
                                   "a fresh copy), but no new optimisation "
                                   "was performed"))
        return {"ok": ea is None, "exc": ea, "min": [na, nt],
                "_stats": stats}

    def alias_sig(self, w):
        fp = w.a.fit_properties
        sig = []
        A = w.args_a
        for k in ("preprocessing", "preprocessing_options", "params_initial",
                  "range_x", "method_kws"):
            v = fp.get(k)
            sig.append(any(v is A[n] for n in A))
        sig.append(any(w.a.preprocessing is A[n] for n in A))
        sig.append(any(w.a.preprocessing_options is A[n] for n in A))
        po = fp.get("preprocessing_options") or {}
        sig.append(po.get("correct_tip_offset") is
                   A["O"].get("correct_tip_offset"))
        rt = w.a._rating
        sig.append(rt is not None and rt[3] is A["NM"])
        pi = fp.get("params_initial")
        sig.append(pi is not None and any(
            pi[p] is A["PI"].get(p) for p in pi) and pi is not A["PI"])
        return sig

    def canon(self, w):
        return cn.digest([cn.indent_canon(w.a), cn.indent_canon(w.t),
                          {n: cn.digest(v) for n, v in w.args_a.items()},
                          sorted(w.dirty), self.alias_sig(w),
                          sorted(w.__dict__.get("passed", {}).items())])

    def check_transition(self, pre, op, obs, w, hops):
        out = []
        case = self.case(hops)
        for clause, api, what, detail in w.viol:
            out.append(V(PROP, clause, site=api, witness=f"{op[1]}:{what}",
                         detail=detail, case=case, kind="hist"))
        w.viol = []
        if op[0] == "call":
            fa = cn.indent_fields(w.a)
            ft = cn.indent_fields(w.t)
            if fa != ft:
                diff = sorted(k for k in set(fa) | set(ft)
                              if fa.get(k) != ft.get(k))
                out.append(V(
                    PROP, "alias-differs-from-twin", site=CALLS[op[1]][0],
                    witness=f"{op[1]}:state",
                    detail="after this call the curve that was handed the "
                    "caller's own objects differs from the twin that got "
                    f"equal-valued fresh copies in: {diff[:8]}; "
                    f"optimisations aliased/twin: {obs.get('min')}",
                    case=case, kind="hist"))
        return out

    def state_stats(self, w):
        fp = w.a.fit_properties
        st = {}
        if "params_fitted" in fp:
            st["distinct_E"] = float(fp["params_fitted"]["E"].value).hex()
        return st


FOCUS = {
    "twin": Twin(),
    "twin_fit": Twin(
        calls=["pre", "fit_pi", "fit_rx", "fit_mk", "fit_k", "fit_rel",
               "fit_plat", "get_pi"],
        edits=["PI.E*=2", "PI.cp", "RX[0]", "MK.max_nfev", "PI.R",
               "PI.b+=2e-10", "PI.R+=5e-9"],
        name="twin_fit"),
    "twin_pre": Twin(
        calls=["pre", "pre_details", "fit_pre", "fit", "rate"],
        edits=["L+=offset", "O.method", "NM+=feat"], name="twin_pre"),
    # ratings of a fitted curve with an in-memory training set that the
    # caller keeps and edits in place
    "twin_rate": Twin(
        calls=["rate_ts", "rate_ts_dt", "fit_k1"],
        edits=["TS.y", "TS.X"], name="twin_rate", prefit=True),
}
DRIVERS = FOCUS


# ---------------------------------------------------- pure entry points

def _pure_case(case):
    """argument digests before/after a pure entry point"""
    import lmfit
    from nanite import model as nmodel, poc
    from nanite.rate import IndentationRater
    from nanite.rate.features import IndentationFeatures
    kind = case["kind"]
    if kind == "funcseq":
        return _funcseq_case(case)
    if kind == "returned-settings":
        return _returned_settings_case(case)
    if kind == "attribute-handover":
        return _attribute_handover_case(case)
    if kind == "method-kws":
        # dictionaries of minimiser keywords (incl. keywords lmfit knows
        # under an older name) are not modified
        import copy as _copy
        from nanite.fit import IndentationFitter
        out = []
        tr = synth.truth_params("hertz_para", E=3000.0, contact_point=0.0,
                                baseline=1e-10)
        idnt = synth.make_curve("hertz_para", tr, n_app=150, n_ret=100,
                                noise=2e-11, seed=1)
        d = _copy.deepcopy(case["kws"])
        d0 = _copy.deepcopy(d)
        try:
            if case["entry"] == "fit_model":
                idnt.fit_model(model_key="hertz_para", method=case["method"],
                               method_kws=d)
            else:
                IndentationFitter(idnt, model_key="hertz_para",
                                  method=case["method"], method_kws=d)
        except BaseException as e:
            if isinstance(e, (KeyboardInterrupt, SystemExit, MemoryError)):
                raise
        if d != d0 or list(d) != list(d0):
            out.append(V(PROP, "argument-mutated", site=case["entry"],
                         witness="method_kws:" + ",".join(sorted(d0)),
                         detail=f"the caller's method_kws {d0} became {d}",
                         case=case, kind="pure"))
        return out
    out = []

    def viol(what, detail):
        out.append(V(PROP, "argument-mutated", site=kind, witness=what,
                     detail=detail, case=case, kind="pure"))
    rng = np.random.RandomState(5)
    if kind == "compute_poc":
        n = case["n"]
        f = np.concatenate([np.zeros(n // 2), np.linspace(0, 1e-9, n // 2)
                            ** 1.5 * 1e4]) + rng.normal(0, 1e-12, 2 * (n // 2))
        f *= case["scale"]
        d0 = cn.digest(f)
        for rd in (False, True):
            ret = poc.compute_poc(f, method=case["method"], ret_details=rd)
            if cn.digest(f) != d0:
                viol(case["method"], "force array modified by compute_poc")
            if rd:
                for key, val in ret[1].items():
                    for part in (val if isinstance(val, (list, tuple))
                                 else [val]):
                        if isinstance(part, np.ndarray) and \
                                np.shares_memory(part, f):
                            out.append(V(
                                PROP, "alias-differs-from-twin",
                                site="compute_poc",
                                witness=f"{case['method']}:{key}",
                                detail=f"returned detail '{key}' shares "
                                "memory with the caller's force array: an "
                                "in-place edit of one changes the other",
                                case=case, kind="pure"))
    elif kind in ("model", "residual"):
        md = nmodel.models_available[case["model"]]
        P = md.get_parameter_defaults()
        P["contact_point"].set(value=case["cp"])
        x = np.linspace(1e-6, -1e-6, 50)
        if case["ascending"]:
            x = x[::-1].copy()
        y = rng.normal(0, 1e-10, 50)
        dp, dx, dy = cn.digest(P), cn.digest(x), cn.digest(y)
        if kind == "model":
            r1 = md.model(P, x)
            r2 = md.module.model_func(x, **P.valuesdict())
            if np.shares_memory(r1, x) or np.shares_memory(r2, x):
                viol(case["model"] + ":return", "model output shares "
                     "memory with the abscissa")
        else:
            md.residual(P, x, y, case["weight_cp"])
        if cn.digest(P) != dp:
            viol(case["model"] + ":params", "parameters modified")
        if cn.digest(x) != dx:
            viol(case["model"] + ":delta", "abscissa modified")
        if cn.digest(y) != dy:
            viol(case["model"] + ":force", "force modified")
    elif kind == "rater":
        X = rng.uniform(0, 1, (30, 3))
        y = np.array([0, 3, 7, 10, 5] * 6, dtype=float)
        names = ["feat_con_apr_flatness", "feat_con_apr_size",
                 "feat_con_bln_slope"]
        from nanite.rate import regressors
        reg_cl, kw = regressors.reg_dict[case["regressor"]]
        ts = (X.copy(), y.copy())
        d0 = cn.digest(list(ts))
        dn = cn.digest(names)
        rt = IndentationRater(regressor=reg_cl(**kw), training_set=ts,
                              names=names, lda=case["lda"])
        S = rng.uniform(0, 1, (4, 3))
        ds = cn.digest(S)
        rt.rate(samples=S)
        if cn.digest(list(ts)) != d0:
            viol("training_set", "training set arrays modified")
        if cn.digest(names) != dn:
            viol("names", "names list modified")
        if cn.digest(S) != ds:
            viol("samples", "samples modified by rate()")
    elif kind == "details":
        idnt = Twin().fresh_idnt()
        steps = ["compute_tip_position", "correct_force_offset",
                 "correct_tip_offset"]
        det = idnt.apply_preprocessing(
            steps, {"correct_tip_offset": {"method": case["method"]}},
            ret_details=True)
        for col in ("force", "tip position"):
            arr = idnt[col]
            for step, dd in (det or {}).items():
                for key, val in (dd or {}).items():
                    for part in (val if isinstance(val, (list, tuple))
                                 else [val]):
                        if isinstance(part, np.ndarray) and \
                                np.shares_memory(part, arr):
                            out.append(V(
                                PROP, "alias-differs-from-twin",
                                site="apply_preprocessing",
                                witness=f"{case['method']}:{key}",
                                detail=f"returned detail '{key}' of step "
                                f"{step} shares memory with the curve's "
                                f"'{col}' column", case=case, kind="pure"))
    elif kind == "features":
        tr = synth.truth_params("hertz_para", E=3000.0, contact_point=0.0)
        idnt = synth.make_curve("hertz_para", tr, n_app=700, n_ret=100,
                                noise=2e-11, seed=1)
        idnt.fit_model(model_key="hertz_para")
        c0 = cn.indent_canon(idnt)
        names = list(case["names"]) if case["names"] else None
        dn = cn.digest(names)
        IndentationFeatures.compute_features(idnt, which_type=case["wt"],
                                             names=names)
        if cn.digest(names) != dn:
            viol("names", "names list modified by compute_features")
        if cn.indent_canon(idnt) != c0:
            viol("curve", "curve modified by compute_features")
    return out


def _returned_settings_case(case):
    """objects handed out by one curve (values of its fit_properties, its
    initial parameters) are edited in place by the caller; another curve
    with the same data, fitted afterwards with the same call, gives what a
    curve fitted before the edit gave"""
    from .. import state
    out = []
    state.restore()
    mk = case["model"]

    def curve():
        tr = synth.truth_params("hertz_para", E=3000.0, contact_point=0.0,
                                baseline=1e-10)
        return synth.make_curve("hertz_para", tr, n_app=150, n_ret=100,
                                noise=2e-11, seed=1)
    ref = curve()
    ref.fit_model(model_key=mk)
    a = curve()
    a.fit_model(model_key=mk)
    fp = a.fit_properties
    what = case["edit"]
    try:
        if what == "range_x":
            fp["range_x"][0], fp["range_x"][1] = -3e-7, 2e-7
        elif what == "method_kws":
            fp["method_kws"]["max_nfev"] = 2
        elif what == "preprocessing_options":
            fp.setdefault("preprocessing_options", {})
            if isinstance(fp.get("preprocessing_options"), dict):
                fp["preprocessing_options"]["correct_tip_offset"] = {
                    "method": "fit_constant_line"}
        elif what == "initial-params":
            P = a.get_initial_fit_parameters()
            P["E"].set(value=77.0, vary=False)
            P["contact_point"].set(min=-1e-9, max=1e-9)
        elif what == "model-defaults":
            from nanite import model as nmodel
            P = nmodel.get_init_parms(mk)
            P["E"].set(value=77.0, vary=False)
    except BaseException as e:
        if isinstance(e, (KeyboardInterrupt, SystemExit, MemoryError)):
            raise
    b = curve()
    try:
        b.fit_model(model_key=mk)
        same = cn.indent_fields(b) == cn.indent_fields(ref)
        detail = ""
        if not same:
            fb, fr = cn.indent_fields(b), cn.indent_fields(ref)
            detail = str(sorted(k for k in set(fb) | set(fr)
                                if fb.get(k) != fr.get(k))[:6])
    except BaseException as e:
        if isinstance(e, (KeyboardInterrupt, SystemExit, MemoryError)):
            raise
        same, detail = False, repr(e)
    if not same:
        out.append(V(PROP, "alias-differs-from-twin", site="returned-objects",
                     witness=f"{what}:{mk}", detail="after a caller edited "
                     f"in place the object a fitted curve handed out "
                     f"({what}), a fresh curve with the same data gives "
                     f"another result for the same call: {detail}",
                     case=case, kind="pure"))
    return out


HANDOVER_STEPS = ["compute_tip_position", "correct_force_offset",
                  "correct_tip_offset"]
HANDOVER_OPTIONS = {"correct_tip_offset": {"method": "fit_constant_line"}}
HANDOVER_LATER = {
    "apply:other-steps": lambda c: c.apply_preprocessing(
        ["compute_tip_position"]),
    "apply:other-options": lambda c: c.apply_preprocessing(
        list(HANDOVER_STEPS),
        options={"correct_tip_offset": {"method": "gradient_zero_crossing"}}),
    "fit:other-steps": lambda c: c.fit_model(
        preprocessing=["compute_tip_position", "correct_tip_offset"]),
    "fit:other-options": lambda c: c.fit_model(
        preprocessing_options={"correct_tip_offset":
                               {"method": "deviation_from_baseline"}}),
    "apply:rejected": lambda c: c.apply_preprocessing(
        ["compute_tip_position", "nope"]),
    "fit": lambda c: c.fit_model(),
}


def _attribute_handover_case(case):
    """a step list and an options dictionary handed over through the public
    attributes `preprocessing` / `preprocessing_options` (the documented
    alternative to passing them): later calls on that curve do not write
    into them, and another curve given the same objects is processed as
    with fresh equal-valued ones"""
    import copy as _copy
    from .. import state
    out = []
    state.restore()

    def curve():
        tr = synth.truth_params("hertz_para", E=3000.0, contact_point=2e-7,
                                baseline=1e-10)
        return synth.make_curve("hertz_para", tr, n_app=150, n_ret=100,
                                noise=2e-11, seed=1, innate_tip=False)

    def handover(c, steps, options):
        c.preprocessing = steps
        c.preprocessing_options = options
        c.apply_preprocessing()
    ref = curve()
    handover(ref, list(HANDOVER_STEPS), _copy.deepcopy(HANDOVER_OPTIONS))
    steps = list(HANDOVER_STEPS)
    options = _copy.deepcopy(HANDOVER_OPTIONS)
    a = curve()
    handover(a, steps, options)
    for later in case["later"]:
        try:
            HANDOVER_LATER[later](a)
        except BaseException as e:
            if isinstance(e, (KeyboardInterrupt, SystemExit, MemoryError)):
                raise
    wit = "+".join(case["later"])
    if steps != HANDOVER_STEPS:
        out.append(V(PROP, "argument-mutated", site="attribute-handover",
                     witness="steps:" + wit, detail="the caller's step list "
                     f"was rewritten: {HANDOVER_STEPS} -> {steps}",
                     case=case, kind="pure"))
    if options != HANDOVER_OPTIONS:
        out.append(V(PROP, "argument-mutated", site="attribute-handover",
                     witness="options:" + wit, detail="the caller's options "
                     f"were rewritten: {HANDOVER_OPTIONS} -> {options}",
                     case=case, kind="pure"))
    # what the caller holds goes to a second curve
    b = curve()
    try:
        handover(b, steps, options)
        fb, fr = cn.indent_fields(b), cn.indent_fields(ref)
        same = fb == fr
        detail = "" if same else str(sorted(
            k for k in set(fb) | set(fr) if fb.get(k) != fr.get(k))[:6])
    except BaseException as e:
        if isinstance(e, (KeyboardInterrupt, SystemExit, MemoryError)):
            raise
        same, detail = False, repr(e)
    if not same:
        out.append(V(PROP, "alias-differs-from-twin",
                     site="attribute-handover", witness=wit,
                     detail="a second curve given the caller's objects is "
                     "not processed as with fresh equal-valued ones: "
                     + detail, case=case, kind="pure"))
    return out


FS_CALLS = ("M", "R0", "R5")
FS_EDITS = ("EX", "EY", "EP", "EC", "ER")


def _funcseq_run(case, alias):
    """one pass of a call/edit sequence on the model and residual functions
    of a registered model.  alias=True: the caller keeps ONE parameter set,
    abscissa and force array (and the array returned last) and edits them
    in place; alias=False: every call gets fresh equal-valued objects."""
    import copy as _copy
    from nanite import model as nmodel
    md = nmodel.models_available[case["model"]]
    P = md.get_parameter_defaults()
    P["contact_point"].set(value=1e-7)
    x = np.linspace(1e-6, -1e-6, 50)
    if case["ascending"]:
        x = x[::-1].copy()
    y = np.random.RandomState(5).normal(0, 1e-10, 50) + 1e-10
    last = None
    results = []
    mutated = []
    ekey = "E" if "E" in P else [k for k in P if k.startswith("E")][0]
    for op in case["seq"]:
        if op == "EX":
            x -= 4e-7
        elif op == "EY":
            y *= 2
        elif op == "EP":
            P[ekey].set(value=P[ekey].value * 2)
        elif op == "EC":
            P["contact_point"].set(value=P["contact_point"].value + 1.5e-7)
        elif op == "ER":
            if last is not None:
                last += 1.0
        else:
            if alias:
                aP, ax, ay = P, x, y
            else:
                aP, ax, ay = _copy.deepcopy(P), x.copy(), y.copy()
            d0 = (cn.digest(aP), cn.digest(ax), cn.digest(ay))
            if op == "M":
                r = md.model(aP, ax)
            else:
                r = md.residual(aP, ax, ay, 0 if op == "R0" else 5e-7)
            if (cn.digest(aP), cn.digest(ax), cn.digest(ay)) != d0:
                mutated.append(op)
            if alias and (np.shares_memory(r, ax) or np.shares_memory(r, ay)):
                mutated.append(op + ":shares-memory")
            results.append(np.array(r, copy=True))
            if alias:
                last = r
    return results, mutated


def _funcseq_case(case):
    from .. import state
    out = []
    state.restore()
    ra, mut = _funcseq_run(case, alias=True)
    state.restore()
    rv, _ = _funcseq_run(case, alias=False)
    wit = f"{case['model']}:{'asc' if case['ascending'] else 'desc'}"
    for m in mut:
        out.append(V(PROP, "argument-mutated", site="model-functions",
                     witness=f"{wit}:{m}", detail="a model/residual call "
                     f"modified or aliased its arguments in {case['seq']}",
                     case=case, kind="pure"))
    for i, (a, b) in enumerate(zip(ra, rv)):
        if a.shape != b.shape or not np.array_equal(a, b, equal_nan=True):
            calls = [o for o in case["seq"] if o in FS_CALLS]
            out.append(V(PROP, "alias-differs-from-twin",
                         site="model-functions",
                         witness=f"{wit}:{calls[i]}#{i}",
                         detail=f"sequence {case['seq']}: call {i} "
                         f"({calls[i]}) on the caller's long-lived, in-place "
                         "edited objects differs from the same call with "
                         "fresh equal-valued objects (max |d| = "
                         f"{float(np.nanmax(np.abs(a - b))) if a.shape == b.shape else 'shape'})",
                         case=case, kind="pure"))
            break
    return out


def funcseq_cases(tier):
    import itertools
    from nanite import model as nmodel
    depth = 4 if tier == "quick" else 5
    alpha = FS_CALLS + FS_EDITS
    cases = []
    for mk in sorted(nmodel.models_available):
        if mk == "sneddon_spher":
            continue
        for asc in (False, True):
            for n in range(2, depth + 1):
                for seq in itertools.product(alpha, repeat=n):
                    if seq[-1] not in FS_CALLS or seq[0] not in FS_CALLS:
                        continue
                    if not any(o in FS_EDITS for o in seq):
                        continue
                    cases.append({"kind": "funcseq", "model": mk,
                                  "ascending": asc, "seq": list(seq)})
    return cases


def pure_cases():
    from nanite import poc
    from nanite import model as nmodel
    cases = []
    for m in [p.identifier for p in poc.POC_METHODS]:
        for n in (40, 400):
            for sc in (1.0, 1e9):
                cases.append({"kind": "compute_poc", "method": m, "n": n,
                              "scale": sc})
    for m in [p.identifier for p in poc.POC_METHODS]:
        cases.append({"kind": "details", "method": m})
    for mk in sorted(nmodel.models_available):
        if mk == "sneddon_spher":
            continue
        for asc in (False, True):
            for cp in (0.0, 2e-7):
                cases.append({"kind": "model", "model": mk, "ascending": asc,
                              "cp": cp})
                for w in (0, 5e-7):
                    cases.append({"kind": "residual", "model": mk,
                                  "ascending": asc, "cp": cp,
                                  "weight_cp": w})
    for mk in ("hertz_para", "hertz_cone", "hertz_pyr3s",
               "sneddon_spher_approx"):
        for edit in ("range_x", "method_kws", "preprocessing_options",
                     "initial-params", "model-defaults"):
            cases.append({"kind": "returned-settings", "model": mk,
                          "edit": edit})
    for l1 in HANDOVER_LATER:
        cases.append({"kind": "attribute-handover", "later": [l1]})
        for l2 in HANDOVER_LATER:
            cases.append({"kind": "attribute-handover", "later": [l1, l2]})
    for entry in ("fit_model", "IndentationFitter"):
        for meth, kws in (("leastsq", {"maxfev": 4000}),
                          ("leastsq", {"max_nfev": 4000, "ftol": 1e-9}),
                          ("nelder", {"maxiter": 300}),
                          ("nelder", {"max_nfev": 300, "tol": 1e-9}),
                          ("leastsq", {})):
            cases.append({"kind": "method-kws", "entry": entry,
                          "method": meth, "kws": kws})
    for reg in ("Decision Tree", "Extra Trees", "SVR (linear kernel)"):
        for lda in (None, True, False):
            cases.append({"kind": "rater", "regressor": reg, "lda": lda})
    for wt in ("all", "binary", "continuous"):
        for names in (None, ["feat_con_idt_sum", "feat_bin_size"]):
            cases.append({"kind": "features", "wt": wt, "names": names})
    return cases


def _pure_work(chunk):
    return [(c, _pure_case(c)) for c in chunk]


def replay(doc):
    if doc.get("kind") == "pure":
        return _pure_case(doc["case"])
    return hist.replay_case(doc["case"])


def run(tier):
    rep = Report(PROP, tier, LEVEL)
    plan = {"quick": [("twin", 2), ("twin_fit", 4), ("twin_pre", 4),
                      ("twin_rate", 4)],
            "thorough": [("twin", 3), ("twin_fit", 5), ("twin_pre", 6),
                         ("twin_rate", 6)]}[tier]
    sc = hist.selfcheck_start(__name__, "twin_fit", [0, 1, 8, 1])
    eff = {}
    for name, depth in plan:
        drv = DRIVERS[name]
        seen, info = hist.search(drv, rep, depth, merge_check=("full" if tier == "thorough" else True))
        for k, v in info.get("obs_stats", {}).items():
            eff[k] = eff.get(k, 0) + v
        hs = sorted((h for h, _ in seen.values()), key=len)
        rep.sample({"driver": name, "history": [drv.ops[i] for i in hs[-1]]})
    hist.selfcheck_finish(sc, rep, "twin_fit")
    rep.set("effective_in_place_edits", eff)
    for kind in ("L", "O", "PI", "RX", "MK", "NM"):
        if not eff.get("effective_edit:" + kind):
            rep.harness(f"HARNESS-VACUOUS: no effective in-place edit of "
                        f"{kind} was followed by a call that noticed it in "
                        "the twin")
    cases = pure_cases()
    n = 0
    for res in pmap(_pure_work, chunks(cases, 8)):
        for c, vs in res:
            n += 1
            rep.extend(vs)
    rep.set("pure_entry_point_cases", n)
    # call/edit sequences on the model and residual functions
    fcases = funcseq_cases(tier)
    nf = 0
    for res in pmap(_pure_work, chunks(shuffled(fcases), 100)):
        for c, vs in res:
            nf += 1
            rep.extend(vs)
    rep.set("model_function_sequences", nf)
    rep.add("transitions", nf)
    rep.add("traces_validated_against_impl", nf)
    rep.add("traces_validated_against_impl", n)
    rep.set("exhaustive", True)
    rep.set("bounds", dict(plan))
    rep.assumptions += [
        "long-lived caller objects: step list, options dict of dicts, "
        "Parameters (also whatever get_initial_fit_parameters returned "
        "last), range list, method_kws dict, feature-name list",
        "an in-place edit counts only if the twin's state changes on the "
        "next call that passes the object (non-vacuity)",
    ]
    return rep
