"""C04 - reported fit outputs are mutually consistent.  Exhaustive grid
over curve x model x segment x range x range type x weighting distance x
geometrical correction factor x choice of fixed/varied parameters, with
independent arithmetic on the output columns."""
import itertools
import math
import types

import numpy as np

from .. import canon as cn
from .. import grid, synth
from ..core import Report, V
from .c02 import ref_force
from .. import hist
from . import c03

PROP = "C04"
LEVEL = "exploration"

EXPR_SRC = '''
import lmfit
import numpy as np


def get_parameter_defaults():
    params = lmfit.Parameters()
    params.add("E", value=3e3, min=0)
    params.add("E2", expr="2*E")
    params.add("contact_point", value=0)
    params.add("baseline", value=0)
    return params


def verif_expr(delta, E, E2, contact_point=0, baseline=0):
    """two moduli, the second tied to the first by an expression"""
    root = contact_point - delta
    pos = root > 0
    bb = np.zeros_like(delta)
    bb[pos] = root[pos] ** 2
    return (E + E2) * bb + baseline


model_doc = verif_expr.__doc__
model_func = verif_expr
model_key = "verif_expr4"
model_name = "verif expr"
parameter_keys = ["E", "E2", "contact_point", "baseline"]
parameter_names = ["Young's Modulus", "Second Modulus", "Contact Point",
                   "Force Baseline"]
parameter_units = ["Pa", "Pa", "m", "N"]
valid_axes_x = ["tip position"]
valid_axes_y = ["force"]
'''

CURVES = {
    "para-clean": ("hertz_para", 0.0),
    "para-noisy": ("hertz_para", 3e-11),
    "cone-clean": ("hertz_cone", 0.0),
    "cone-noisy": ("hertz_cone", 2e-10),
    "sneddon-clean": ("sneddon_spher_approx", 0.0),
    "sneddon-noisy": ("sneddon_spher_approx", 3e-11),
    "para-3seg": ("hertz_para", 0.0),
}
CP = 1.5e-7
RANGES = ["whole", "interior", "on-samples", "tiny3", "tiny5", "inverted"]
SUBSETS = [tuple(s) for n in range(4) for s in
           itertools.combinations(("E", "contact_point", "baseline"), n)]


def register_expr():
    from nanite.model import logic
    if "verif_expr4" not in logic.models_available:
        mod = types.ModuleType("verif_c04_expr")
        exec(compile(EXPR_SRC, mod.__name__, "exec"), mod.__dict__)
        logic.register_model(mod)


def make(curve):
    mk, noise = CURVES[curve]
    if curve == "para-3seg":
        return make_3seg(mk)
    E = {"hertz_para": 3000.0, "hertz_cone": 8000.0,
         "sneddon_spher_approx": 2000.0}[mk]
    tr = synth.truth_params(mk, E=E, contact_point=CP, baseline=8e-11)
    return synth.make_curve(mk, tr, n_app=160, n_ret=140, x_start=1.2e-6,
                            depth=9e-7, noise=noise, seed=2), tr


def make_3seg(mk):
    """approach (segment 0), a pause at maximum depth (1), retract (2) -
    what a creep-compliance measurement looks like"""
    from nanite.indent import Indentation
    tr = synth.truth_params(mk, E=3000.0, contact_point=CP, baseline=8e-11)
    arr = synth.make_arrays(mk, tr, n_app=160, n_ret=140, x_start=1.2e-6,
                            depth=9e-7)
    n, npause = 160, 40
    out = {}
    for k, v in arr.items():
        if k == "segment":
            out[k] = np.concatenate([
                np.zeros(n, dtype=np.uint8), np.ones(npause, dtype=np.uint8),
                2 * np.ones(v.size - n, dtype=np.uint8)])
        elif k == "time":
            out[k] = np.arange(v.size + npause) * (v[1] - v[0])
        else:
            out[k] = np.concatenate([v[:n], np.full(npause, v[n - 1]),
                                     v[n:]])
    idnt = Indentation(data=out, metadata={
        "path": "/verif/scratch/synth3.h5", "enum": 0,
        "spring constant": 0.05, "imaging mode": "creep-compliance",
        "point count": out["force"].size})
    return idnt, tr


def range_of(name, idnt, seg, rtype):
    x = np.asarray(idnt["tip position"])[np.asarray(idnt["segment"]) == seg]
    xs = np.sort(x)
    if name == "whole":
        return [0, 0]
    off = CP if rtype == "relative cp" else 0.0
    if name == "interior":
        return [CP - 6e-7 - off, CP + 5e-7 - off]
    if name == "inverted":
        return [CP + 5e-7 - off, CP - 6e-7 - off]
    if name == "on-samples":
        return [float(xs[20]) - off, float(xs[100]) - off]
    if name == "tiny3":
        return [float(xs[40]) - off, float(xs[42]) - off]
    if name == "tiny5":
        return [float(xs[40]) - off, float(xs[44]) - off]
    raise RuntimeError("harness: range " + name)


def model_reference(mk, pvals, xk):
    """independent evaluation of the fitted curve (C02's reference)"""
    cp = pvals["contact_point"]
    b = pvals["baseline"]
    out = np.full(xk.shape, b, dtype=float)
    p = {k: v for k, v in pvals.items()
         if k not in ("contact_point", "baseline")}
    for i, xi in enumerate(xk):
        d = cp - xi
        if d > 0:
            if mk == "verif_expr4":
                out[i] = (p["E"] + p["E2"]) * d ** 2 + b
            else:
                out[i] = ref_force(mk, float(d), p) + b
    return out


def consistency(idnt, mk, seg, k, w, init, viol, range_label=""):
    """every output relation of the property, recomputed with independent
    arithmetic, for the fit currently shown on `idnt`.
    Returns an outcome label."""
    from nanite import model as nmodel
    md = nmodel.models_available[mk]
    fp = idnt.fit_properties
    x = np.asarray(idnt["tip position"], dtype=float)
    y = np.asarray(idnt["force"], dtype=float)
    segm = np.asarray(idnt["segment"]) == seg
    missing = [c for c in ("fit", "fit residuals", "fit range")
               if c not in idnt]
    if missing:
        viol("unsuccessful-nan" if not fp.get("success") else "fit-column",
             "columns-missing", f"after fit_model the columns {missing} do "
             f"not exist (success={fp.get('success')})")
        return "columns-missing"
    fit = np.asarray(idnt["fit"], dtype=float)
    res = np.asarray(idnt["fit residuals"], dtype=float)
    rng = np.asarray(idnt["fit range"]).astype(bool)
    if not fp.get("success", False):
        if not (np.all(np.isnan(fit)) and np.all(np.isnan(res))):
            viol("unsuccessful-nan", range_label, "success is False but "
                 "the fit / residual columns hold numbers")
        return "unsuccessful"
    pf = fp["params_fitted"]
    pv = {n: pf[n].value for n in pf}
    Fmax = np.max(np.abs(y)) + 1e-300
    if np.any(~np.isnan(fit[~segm])):
        viol("fit-nan-elsewhere", "fit", "fit column is not NaN outside "
             "the fitted segment")
    if np.any(~np.isnan(res[~segm])):
        viol("fit-nan-elsewhere", "residuals", "residual column is not NaN "
             "outside the fitted segment")
    # fit column == model(params) on the segment, in fitting coordinates
    xk = x[segm] * k
    pvk = dict(pv, contact_point=pv["contact_point"] * k)
    ref = model_reference(mk, pvk, xk)
    tolf = (1e-11 if k == 1 else 1e-9) * Fmax
    if np.any(np.isnan(fit[segm])) or \
            not np.max(np.abs(fit[segm] - ref)) <= tolf:
        viol("fit-column", f"k={k}", "fit column differs from the model "
             "evaluated with the reported parameters: max |d| = "
             f"{np.nanmax(np.abs(fit[segm] - ref)):.3e} (F_max {Fmax:.2e})")
    if k == 1:
        Pk = md.get_parameter_defaults()
        for n in Pk:
            if not Pk[n].expr:
                Pk[n].set(value=pv[n], min=-np.inf, max=np.inf)
        own = md.model(Pk, xk)
        if not np.array_equal(own, fit[segm]):
            viol("fit-column", "registered-model", "fit column is not "
                 "bit-identical to the registered model function at the "
                 "reported parameters: max |d| = "
                 f"{np.max(np.abs(own - fit[segm])):.3e}")
    # residuals == (data - fit) * weights
    if w:
        wt = np.minimum(1.0, np.abs(xk - pvk["contact_point"]) / w)
    else:
        wt = np.ones_like(xk)
    expres = (y[segm] - fit[segm]) * wt
    tolr = 1e-12 * Fmax if k == 1 else 1e-9 * Fmax
    if not np.max(np.abs(res[segm] - expres)) <= tolr:
        viol("residual-column", f"w={w}", "residual column != (data - fit)"
             " * weights: max |d| = "
             f"{np.max(np.abs(res[segm] - expres)):.3e}")
    if w and k == 1:
        # weights: 0 at the contact point, 1 beyond the distance, linear
        # in between - read back from the column where data != fit
        nz = np.abs(y[segm] - fit[segm]) > 1e-6 * Fmax
        wobs = res[segm][nz] / (y[segm] - fit[segm])[nz]
        if wobs.size and (np.min(wobs) < -1e-9 or np.max(wobs) > 1 + 1e-9):
            viol("weights", f"w={w}", f"weights outside [0, 1]: "
                 f"[{np.min(wobs)}, {np.max(wobs)}]")
    # chi-square == sum of squared residuals over the used points
    chi = float(np.sum(res[rng] ** 2))
    # (lmfit floors chi-square at 1e-250 per point for exact fits)
    if not math.isclose(chi, fp["chi_sqr"], rel_tol=1e-9,
                        abs_tol=1e-24 * Fmax ** 2 * max(1, int(rng.sum()))):
        viol("chi-square", range_label, f"chi_sqr {fp['chi_sqr']!r} vs "
             f"sum of squared residuals over the used points {chi!r}")
    if np.any(rng & ~segm):
        viol("fit-nan-elsewhere", "range", "fit range includes points of "
             "the other segment")
    # parameters
    for n, (v0, vary0, mn, mx, expr) in init.items():
        if expr:
            continue
        if not vary0:
            same = cn.norm(pf[n].value) == cn.norm(v0)
            if n == "contact_point" and k != 1:
                # reported as (cp * k) / k: one rounding each way
                same = abs(pf[n].value - v0) <= 2 * np.spacing(abs(v0))
            if not same:
                viol("fixed-param", n, f"fixed parameter {n} changed from "
                     f"{v0!r} to {pf[n].value!r}")
        else:
            if not (mn <= pf[n].value <= mx):
                viol("bounds", n, f"{n}={pf[n].value!r} outside "
                     f"[{mn}, {mx}]")
    for n, (v0, vary0, mn, mx, expr) in init.items():
        if expr and expr.startswith("E*"):
            want = pf["E"].value * float(expr[2:])
            if not math.isclose(pf[n].value, want, rel_tol=1e-12):
                viol("expr", n, f"{n}={pf[n].value!r} but its expression "
                     f"{expr} gives {want!r} (expression of the fitted "
                     f"parameter: {pf[n].expr!r})")
    if "E2" in pf:
        if not math.isclose(pf["E2"].value, 2 * pf["E"].value,
                            rel_tol=1e-12):
            viol("expr", "E2", f"E2={pf['E2'].value!r} but 2*E="
                 f"{2 * pf['E'].value!r}")
    return "success"


def case_fn(case):
    from nanite import model as nmodel
    register_expr()
    out = []
    idnt, tr = make(case["curve"])
    mk = case["model"]
    md = nmodel.models_available[mk]
    seg, k, w = case["segment"], case["k"], case["weight_cp"]
    rtype = case["range_type"]
    P = md.get_parameter_defaults()
    if "E" in P and not P["E"].expr:
        P["E"].set(value=tr["E"] * 1.3)
    P["contact_point"].set(value=CP + 4e-8)
    P["baseline"].set(value=tr["baseline"] * 0.5)
    for name in case["fixed"]:
        P[name].set(vary=False)
    for name, factor in case.get("user_expr", {}).items():
        # a constraint of the caller's on a parameter of a shipped model
        P[name].set(expr=f"E*{factor!r}")
    init = {n: (P[n].value, P[n].vary, P[n].min, P[n].max, P[n].expr)
            for n in P}
    rx = range_of(case["range"], idnt, seg, rtype)

    def viol(clause, wit, detail):
        out.append(V(PROP, clause, site=f"{mk}:{rtype}", witness=wit,
                     detail=detail, case=case, kind="grid"))
    try:
        idnt.fit_model(model_key=mk, params_initial=P, segment=seg,
                       range_x=rx, range_type=rtype, weight_cp=w, gcf_k=k)
    except BaseException as e:
        if isinstance(e, (KeyboardInterrupt, SystemExit, MemoryError)):
            raise
        return out, ("raises", type(e).__name__)
    label = consistency(idnt, mk, seg, k, w, init, viol, case["range"])
    if label != "success":
        return out, (label, case["range"])
    return out, ("success", len(case["fixed"]))


def cases(tier):
    cs = []
    ks = [1.0, 0.5, 0.23]
    ws = [0, 2e-7, 1e-6]
    for curve, (gen, noise) in CURVES.items():
        models = [gen]
        if curve == "para-noisy":
            models.append("hertz_cone")          # a deliberately poor model
        if curve == "cone-clean":
            models.append("verif_expr4")
        for mk in models:
            for seg in ((0, 2) if curve == "para-3seg" else (0, 1)):
                for rname in RANGES:
                    for rtype in ("absolute", "relative cp"):
                        if rtype == "relative cp" and rname in (
                                "on-samples", "inverted"):
                            continue
                        for w in ws:
                            for k in ks:
                                for fixed in SUBSETS:
                                    if tier == "quick" and (
                                            (len(fixed) == 2)
                                            or (k == 0.23 and w == 2e-7)
                                            or (noise and rname == "tiny5")
                                            or (seg == 1 and w == 1e-6
                                                and k != 1.0)):
                                        continue
                                    if mk == "verif_expr4" and "E" in fixed \
                                            and len(fixed) > 1:
                                        continue
                                    cs.append({
                                        "kind": "grid", "curve": curve,
                                        "model": mk, "segment": seg,
                                        "range": rname, "range_type": rtype,
                                        "weight_cp": w, "k": k,
                                        "fixed": list(fixed)})
    # constraints of the caller's: contact point / baseline tied to the
    # modulus by an expression
    for curve in ("para-clean", "cone-clean"):
        gen = CURVES[curve][0]
        Etrue = {"hertz_para": 3000.0, "hertz_cone": 8000.0}[gen]
        for name, factor in (("contact_point", CP / Etrue),
                             ("baseline", 8e-11 / Etrue),
                             ("contact_point", 0.7 * CP / Etrue)):
            for seg in (0, 1):
                for rname, rtype in (("whole", "absolute"),
                                     ("interior", "absolute"),
                                     ("interior", "relative cp")):
                    for w in (0, 1e-6):
                        for k in ks:
                            cs.append({
                                "kind": "grid", "curve": curve, "model": gen,
                                "segment": seg, "range": rname,
                                "range_type": rtype, "weight_cp": w, "k": k,
                                "fixed": [], "user_expr": {name: factor}})
    return cs


class FittedStates(c03.Broad):
    """C03's broad alphabet: the same output relations as an invariant in
    every fitted state reached by a history (odd orders of preprocessing,
    refits, model changes, plateau search, failed calls)"""
    name = "fitted_states"
    prop = PROP

    def check_transition(self, pre, op, obs, w, hops):
        return []

    def check_state(self, w, hops):
        idnt = w.idnt
        fp = idnt.fit_properties
        out = []
        if "hash" not in fp or "tip position" not in idnt:
            return out
        mk = fp.get("model_key", "hertz_para")
        case = self.case(hops)

        def viol(clause, wit, detail):
            out.append(V(PROP, clause, site=f"state:{mk}", witness=wit,
                         detail=detail, case=case, kind="hist"))
        pi = fp.get("params_initial")
        init = {n: (pi[n].value, pi[n].vary, pi[n].min, pi[n].max,
                    pi[n].expr) for n in pi} if pi is not None else {}
        consistency(idnt, mk, fp.get("segment", 0), fp.get("gcf_k", 1.0),
                    fp.get("weight_cp", 1e-6), init, viol, "history")
        return out

    def state_stats(self, w):
        return {"fitted_states": int("hash" in w.idnt.fit_properties)}


DRIVERS = {"fitted_states": FittedStates()}


def replay(doc):
    if doc.get("kind") == "hist":
        return hist.replay_case(doc["case"])
    return case_fn(doc["case"])[0]


def run(tier):
    rep = Report(PROP, tier, LEVEL)
    cs = cases(tier)
    cl = grid.run_cases(rep, __name__, "case_fn", cs, chunk=24,
                        label="fits")
    rep.set("outcome_classes", {str(k): v for k, v in sorted(
        cl.items(), key=str)})
    rep.set("distinct_nontrivial",
            sum(v for k, v in cl.items() if k[0] == "success"))
    rep.set("rule", "full product curve x model x segment x range x range "
            "type x weighting distance x k x fixed-parameter subset; "
            "non-trivial = the fit completed successfully (every output "
            "relation is then evaluated); unsuccessful cells check the NaN "
            "rule")
    # the same relations as an invariant over fitted states of histories
    depth = 2 if tier == "quick" else 3
    seen, info = hist.search(DRIVERS["fitted_states"], rep, depth,
                             merge_check=False)
    rep.set("history_depth", depth)
    rep.set("exhaustive", True)
    rep.sample(cs[0])
    rep.sample(cs[len(cs) // 2])
    rep.sample(cs[-1])
    rep.assumptions += [
        "the weighting distance under k != 1 is taken in fitting "
        "coordinates (x' = k x, cp' = k cp), as the fitting guide says",
        "for k != 1 the reported contact point is cp'/k; re-multiplying "
        "costs one rounding, hence 1e-9 F_max instead of bit equality, and "
        "a fixed contact point may differ from its initial value by 2 ulp",
    ]
    return rep
