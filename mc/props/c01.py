"""C01 - fitting recovers the parameters that generated the data.
Exhaustive cartesian grid over model x parameters x sampling x segment x
weighting x minimizer x start corner of the stated convergence basin x
noise level x noise realisation; ground truth known by construction."""
import itertools
import math

import numpy as np

from .. import grid, synth
from ..core import Report, V
from .c02 import ref_force_np

PROP = "C01"
LEVEL = "exploration"

GEOM = {"hertz_para": ("R", [5e-6, 20e-6]),
        "hertz_cone": ("alpha", [15.0, 35.0]),
        "hertz_pyr3s": ("alpha", [10.0, 25.0]),
        "sneddon_spher_approx": ("R", [5e-6, 20e-6]),
        "power_layer_clifford_2009": ("R", [5e-6, 20e-6])}
EKEY = {m: "E" for m in GEOM}
EKEY["power_layer_clifford_2009"] = "E_S"
DEPTH = 1e-6
XSTART = 1.5e-6
#: stated convergence basin (corners are enumerated)
BASIN = {"leastsq": {"E": (0.3, 3.0), "cp": 0.1, "b": 0.1, "tol": 1e-6},
         "nelder": {"E": (0.8, 1.25), "cp": 0.03, "b": 0.03, "tol": 1e-3}}
#: regression bounds for noisy data: error <= C * (sigma/F_max) / sqrt(N)
NOISE_C = {"E": 200.0, "cp": 80.0, "b": 15.0}


def build(case):
    mk = case["model"]
    gname, _ = GEOM[mk]
    over = {EKEY[mk]: case["E"], gname: case["geom"],
            "contact_point": case["cp"], "baseline": case["baseline"]}
    if mk == "power_layer_clifford_2009":
        # layer parameters chosen such that xi reaches ~10 at full depth:
        # otherwise the force does not depend on the sample modulus at all
        # (P xi^n << 1) and E_S is not identifiable from the curve
        EL = min(0.2 * case["E"], 1000.0)
        amax = math.sqrt(case["geom"] * DEPTH)
        t = amax * (EL / case["E"]) ** (2 / 3) * 1.18 / 10
        over.update(E_L=EL, t=t)
        if case["geom"] == GEOM[mk][1][-1]:
            # unequal Poisson ratios of sample and layer
            over.update(nu_S=0.2, nu_L=0.45)
    elif case["geom"] == GEOM[mk][1][-1]:
        over.update(nu=0.3)
    tr = synth.truth_params(mk, **over)
    n = case["n"]
    arr = synth.make_arrays(mk, tr, n_app=n, n_ret=n,
                            x_start=case.get("x_start", XSTART),
                            depth=DEPTH, nonuniform=case["nonuniform"])
    if case.get("jitter"):
        # "any sampling": tip positions that are oriented as a whole but
        # locally unordered (position noise of a few sampling steps) - the
        # force below still follows the model exactly at every sample
        x = arr["tip position"]
        step = abs(x[1] - x[0])
        rs = np.random.RandomState(17)
        arr["tip position"] = x + case["jitter"] * step * rs.uniform(
            -1, 1, x.size)
    # the curve follows the *documented* model: generated with the
    # independent literature reference, not with nanite's own function
    pp = {k: v for k, v in tr.items()
          if k not in ("contact_point", "baseline")}
    arr["force"] = case["baseline"] + ref_force_np(
        mk, case["cp"] - arr["tip position"], pp)
    arr["height (measured)"] = arr["tip position"] - arr["force"] / 0.05
    f0 = arr["force"]
    Fmax = float(np.max(f0) - case["baseline"])
    sigma = case["noise"] * Fmax
    if sigma:
        rng = np.random.RandomState(case["seed"])
        arr["force"] = f0 + rng.normal(0, sigma, f0.size)
        arr["height (measured)"] = arr["tip position"] - arr["force"] / 0.05
    from nanite.indent import Indentation
    meta = {"path": "/verif/scratch/synth.h5", "enum": 0,
            "spring constant": 0.05, "imaging mode": "force-distance",
            "point count": f0.size}
    return Indentation(data=arr, metadata=meta), tr, Fmax, sigma


def sequence_case(case):
    """two exact curves fitted one after the other, both starting from the
    parameters nanite hands out (get_initial_fit_parameters); for the
    first one the caller also fixes the baseline.  The second fit recovers
    its own generating parameters (nothing carries over)."""
    from .. import state
    state.restore()
    out = []
    mk = case["model"]
    for k, sub in enumerate(case["curves"]):
        c = dict(case, **sub)
        idnt, tr, Fmax, sigma = build(c)
        P = idnt.get_initial_fit_parameters(model_key=mk)
        for n in P:
            if n not in (EKEY[mk], "contact_point", "baseline") \
                    and not P[n].expr:
                P[n].set(value=tr[n], vary=False)
        P[EKEY[mk]].set(value=c["E"] * 1.3)
        P["contact_point"].set(value=c["cp"] + 0.03 * DEPTH)
        if k == 0:
            P["baseline"].set(value=c["baseline"], vary=False)
        else:
            P["baseline"].set(value=c["baseline"] + 0.03 * Fmax)
        try:
            idnt.fit_model(model_key=mk, params_initial=P,
                           segment=c["segment"], weight_cp=0)
        except BaseException as e:
            if isinstance(e, (KeyboardInterrupt, SystemExit, MemoryError)):
                raise
            out.append(V(PROP, "fit-raises", site=f"{mk}:sequence",
                         witness=f"curve{k}", detail=repr(e), case=case,
                         kind="sequence"))
            break
        fp = idnt.fit_properties
        pf = fp.get("params_fitted")
        if not fp.get("success") or pf is None:
            out.append(V(PROP, "success-flag", site=f"{mk}:sequence",
                         witness=f"curve{k}", detail="unsuccessful",
                         case=case, kind="sequence"))
            break
        eE = abs(pf[EKEY[mk]].value / c["E"] - 1)
        ecp = abs(pf["contact_point"].value - c["cp"]) / DEPTH
        eb = abs(pf["baseline"].value - c["baseline"]) / Fmax
        if not max(eE, ecp, eb) <= 1e-6:
            out.append(V(PROP, "param-recovery", site=f"{mk}:sequence",
                         witness=f"curve{k}", detail=f"curve {k} of a "
                         f"sequence: errors E {eE:.2e}, contact point "
                         f"{ecp:.2e}, baseline {eb:.2e} (> 1e-6)", case=case,
                         kind="sequence"))
            break
    return out, ("sequence",)


def case_fn(case):
    if case.get("kind") == "sequence":
        return sequence_case(case)
    from nanite import model as nmodel
    out = []
    mk = case["model"]
    idnt, tr, Fmax, sigma = build(case)
    md = nmodel.models_available[mk]
    P = md.get_parameter_defaults()
    for n in P:
        if n not in (EKEY[mk], "contact_point", "baseline"):
            P[n].set(value=tr[n], vary=False)
    bz = BASIN[case["method"]]
    ce, cc, cb = case["corner"]
    P[EKEY[mk]].set(value=case["E"] * bz["E"][ce])
    P["contact_point"].set(value=case["cp"] + (2 * cc - 1) * bz["cp"] * DEPTH)
    P["baseline"].set(value=case["baseline"] + (2 * cb - 1) * bz["b"] * Fmax)
    seg = case["segment"]

    def viol(clause, wit, detail):
        out.append(V(PROP, clause, site=f"{mk}:{case['method']}",
                     witness=wit, detail=detail, case=case, kind="grid"))
    kw = dict(model_key=mk, params_initial=P, segment=seg,
              weight_cp=case["weight_cp"], method=case["method"],
              range_x=[0, 0], range_type="absolute", gcf_k=1.0)
    rng_kind = case.get("range", "whole")
    if rng_kind == "abs":
        # a proper sub-interval: most of the indentation, part of the
        # baseline; recovery and the fitted curve are still judged on the
        # whole fitted segment
        kw.update(range_x=[case["cp"] - 0.8 * DEPTH,
                           case["cp"] + 0.5 * XSTART])
    elif rng_kind == "indent":
        # the indented part only: the interval does not contain the
        # contact point
        kw.update(range_x=[case["cp"] - 0.95 * DEPTH,
                           case["cp"] - 0.15 * DEPTH])
    elif rng_kind == "rel":
        kw.update(range_x=[-0.8 * DEPTH, 0.5 * XSTART],
                  range_type="relative cp")
    if case.get("kw_order") == "params-first":
        kw = {k: kw[k] for k in ["params_initial", "segment", "method",
                                 "model_key", "weight_cp", "range_x",
                                 "range_type", "gcf_k"]}
    elif case.get("kw_order") == "reversed":
        kw = {k: kw[k] for k in reversed(list(kw))}
    try:
        idnt.fit_model(**kw)
    except BaseException as e:
        if isinstance(e, (KeyboardInterrupt, SystemExit, MemoryError)):
            raise
        viol("fit-raises", type(e).__name__, repr(e))
        return out, ("raises",)
    fp = idnt.fit_properties
    if fp.get("success") is not True:
        viol("success-flag", "success", f"success={fp.get('success')!r}")
        return out, ("unsuccessful",)
    pf = fp["params_fitted"]
    eE = abs(pf[EKEY[mk]].value / case["E"] - 1)
    ecp = abs(pf["contact_point"].value - case["cp"]) / DEPTH
    eb = abs(pf["baseline"].value - case["baseline"]) / Fmax
    segm = np.asarray(idnt["segment"]) == seg
    N = int(segm.sum())
    y = np.asarray(idnt["force"])[segm]
    fit = np.asarray(idnt["fit"])[segm]
    ecurve = float(np.max(np.abs(fit - y))) / Fmax
    moved = (abs(pf[EKEY[mk]].value / P[EKEY[mk]].value - 1) > 0.01)
    if not sigma:
        tol = bz["tol"]
        for name, err in (("E", eE), ("contact_point", ecp),
                          ("baseline", eb)):
            if not err <= tol:
                viol("param-recovery", name, f"{name}: normalised error "
                     f"{err:.3e} > {tol:.0e} (fitted "
                     f"{pf[EKEY[mk] if name == 'E' else name].value!r})")
        if not ecurve <= tol:
            viol("curve-recovery", "fit", f"max |fit - data| = "
                 f"{ecurve:.3e} F_max > {tol:.0e}")
        return out, ("clean", moved)
    unit = (sigma / Fmax) / math.sqrt(N)
    floor = bz["tol"]
    checks = [("contact_point", ecp, NOISE_C["cp"]),
              ("baseline", eb, NOISE_C["b"])]
    if mk != "power_layer_clifford_2009":
        checks.append(("E", eE, NOISE_C["E"]))
    for name, err, C in checks:
        if not err <= C * unit + floor:
            viol("noise-proportional", name, f"{name}: normalised error "
                 f"{err:.3e} > {C} x (sigma/F_max)/sqrt(N) = "
                 f"{C * unit:.3e} (noise level {case['noise']})")
    if not ecurve <= 6 * case["noise"] + floor:
        viol("curve-recovery", "fit-noisy", f"max |fit - data| = "
             f"{ecurve:.3e} F_max with noise level {case['noise']}")
    return out, ("noisy", moved, round(max(eE / unit / NOISE_C["E"]
                                           if mk != "power_layer_clifford_"
                                           "2009" else 0,
                                           ecp / unit / NOISE_C["cp"],
                                           eb / unit / NOISE_C["b"]), 1))


def cases(tier):
    cs = []
    if tier == "quick":
        Es = [30.0, 3e3, 3e5]
        cps = [0.0, 5e-7]
        bls = [0.0, 2e-10]
        samp = [(60, False), (300, True)]
        corners = [(0, 0, 0), (1, 1, 1), (0, 1, 0), (1, 0, 1)]
        noises = [(0.0, 0), (0.02, 1)]
        geoms = [1]
    else:
        Es = [30.0, 300.0, 3e3, 3e4, 3e5]
        cps = [0.0, -3e-7, 5e-7]
        bls = [0.0, 2e-10, -1e-10]
        samp = [(60, False), (60, True), (300, False), (300, True),
                (1500, False), (1500, True)]
        corners = list(itertools.product((0, 1), repeat=3))
        noises = [(0.0, 0), (0.005, 1), (0.005, 2), (0.02, 1), (0.02, 2)]
        geoms = [0, 1]
    for mk in GEOM:
        for E in Es:
            for cp in cps:
                for b in bls:
                    for g in geoms:
                        for n, nu in samp:
                            for seg in (0, 1):
                                for w in (0, 5e-7):
                                    for meth in ("leastsq", "nelder"):
                                        for co in corners:
                                            for noise, seed in noises:
                                                cs.append({
                                                    "kind": "grid",
                                                    "model": mk, "E": E,
                                                    "cp": cp, "baseline": b,
                                                    "geom": GEOM[mk][1][g],
                                                    "n": n, "nonuniform": nu,
                                                    "segment": seg,
                                                    "weight_cp": w,
                                                    "method": meth,
                                                    "corner": list(co),
                                                    "noise": noise,
                                                    "seed": seed,
                                                    "kw_order": ["sorted",
                                                                 "params-first",
                                                                 "reversed"][
                                                        (len(cs)) % 3]})
    # fits on a proper sub-interval (absolute / relative to the contact
    # point): exact data, so the truth is still recovered, and the fitted
    # curve coincides with the data on the whole fitted segment
    sub = []
    for c in cs:
        if c["noise"] == 0.0 and c["method"] == "leastsq" \
                and c["corner"] in ([0, 0, 0], [1, 1, 1]) \
                and (tier != "quick" or c["baseline"] == 2e-10):
            for rk in ("abs", "rel", "indent"):
                d = dict(c)
                d["range"] = rk
                sub.append(d)
    # very short curves (5, 6 and 9 samples per segment, short baseline so
    # that at least three samples are indented): still exactly determined
    short = []
    seen = set()
    for c in cs:
        if c["noise"] == 0.0 and c["method"] == "leastsq" \
                and not c["nonuniform"]:
            for n in (5, 6, 9):
                d = dict(c)
                d.update(n=n, x_start=0.6e-6)
                key = repr(sorted((k, repr(v)) for k, v in d.items()
                                  if k != "kw_order"))
                if key not in seen:
                    seen.add(key)
                    short.append(d)
    seqs = []
    for mk in GEOM:
        for seg in (0, 1):
            seqs.append({
                "kind": "sequence", "model": mk, "geom": GEOM[mk][1][0],
                "n": 300, "nonuniform": False, "noise": 0.0, "seed": 0,
                "curves": [
                    {"E": 3e3, "cp": 0.0, "baseline": 2e-10, "segment": seg},
                    {"E": 3e4, "cp": 5e-7, "baseline": 0.0,
                     "segment": 1 - seg},
                    {"E": 300.0, "cp": 0.0, "baseline": -1e-10,
                     "segment": seg}]})
    jit = []
    seen = set()
    for c in cs:
        if c["noise"] == 0.0 and c["method"] == "leastsq" \
                and not c["nonuniform"] and c["corner"] == [0, 0, 0]:
            d = dict(c)
            d.update(n=300, jitter=4.0)
            key = repr(sorted((k, repr(v)) for k, v in d.items()
                              if k != "kw_order"))
            if key not in seen:
                seen.add(key)
                jit.append(d)
    return cs + sub + short + seqs + jit


def replay(doc):
    return case_fn(doc["case"])[0]


def run(tier):
    rep = Report(PROP, tier, LEVEL)
    cs = cases(tier)
    cl = grid.run_cases(rep, __name__, "case_fn", cs, chunk=60,
                        label="cells")
    summ = {}
    worst = 0.0
    for k, v in cl.items():
        key = str(k[:2])
        summ[key] = summ.get(key, 0) + v
        if k[0] == "noisy":
            worst = max(worst, k[2])
    rep.set("outcome_classes", summ)
    rep.set("worst_noisy_error_as_fraction_of_bound", worst)
    rep.set("distinct_nontrivial",
            sum(v for k, v in cl.items() if len(k) > 1 and k[1] is True))
    rep.set("rule", "full cartesian product of the axes; non-trivial = the "
            "optimiser moved the modulus by more than 1 % from its start "
            "value (so recovery is not inherited from the start)")
    rep.set("exhaustive", True)
    rep.set("basin", BASIN)
    rep.set("noise_bounds", NOISE_C)
    rep.sample(cs[0])
    rep.sample(cs[len(cs) // 2])
    rep.sample(cs[-1])
    rep.assumptions += [
        "convergence basin (stated by this check, calibrated on the pinned "
        "tree): leastsq E0/E in [0.3, 3], |cp0-cp| <= 0.1 depth, |b0-b| <= "
        "0.1 F_max; nelder E0/E in [0.8, 1.25], 0.03 depth, 0.03 F_max (from "
        "[0.7, 1.4] / 0.05 Nelder-Mead stalls in 7 of 864 000 cells: cone, "
        "35 deg, retract, non-uniform sampling - optimiser, not nanite)",
        "noise constants are regression bounds with >= 3x margin, not "
        "theorems; the layered model's sample modulus is checked "
        "noise-free only, with layer modulus and thickness held fixed",
        "least_squares / powell are not on the minimizer axis (DESIGN O7)",
    ]
    return rep
