"""C06 - preprocessing is a pure, repeatable function of raw data, steps
and options.  HIST search over valid/invalid requests through both entry
points, interleaved with fits and a rating; differential oracle against a
fresh curve; rejection predicate; raw-data digest."""
import copy
import json

import numpy as np

from .. import canon as cn
from .. import hist, ops, synth
from ..core import Report, V

PROP = "C06"
LEVEL = "model_checking"

P0 = ["compute_tip_position"]
P1 = ["compute_tip_position", "correct_force_offset", "correct_tip_offset"]
PS = P1 + ["correct_force_slope"]
PM = P1 + ["correct_split_approach_retract", "smooth_height"]

#: (steps, options, must_be_rejected)
REQUESTS = {
    # the empty pipeline: back to the recorded data
    "V0": ([], {}, False),
    "V1": (P0, {}, False),
    "V2": (P1, {}, False),
    "V3": (P1, {"correct_tip_offset": {"method": "fit_constant_line"}},
           False),
    "V4": (P1, {"correct_tip_offset": {"method": "gradient_zero_crossing"}},
           False),
    "V5": (PS, {"correct_force_slope": {"region": "baseline",
                                        "strategy": "shift"}}, False),
    "V6": (PS, {"correct_force_slope": {"region": "all",
                                        "strategy": "drift"}}, False),
    "V7": (PM, {}, False),
    # smoothing while 'tip position' is still the array that
    # compute_tip_position created (no offset correction in between)
    "V8": (["compute_tip_position", "smooth_height"], {}, False),
    "V9": (["compute_tip_position", "correct_split_approach_retract",
            "smooth_height"], {}, False),
    # smoothing before the segments are determined (the turning point is
    # then found on other data than in V9) and again afterwards
    "V10": (["compute_tip_position", "smooth_height",
             "correct_split_approach_retract", "smooth_height"], {}, False),
    # an option left out (the step's own default applies) next to the
    # same request with the other value of that option given
    "V11": (PS, {}, False),
    "V12": (PS, {"correct_force_slope": {"strategy": "drift"}}, False),
    "I1": (["compute_tip_position", "nope"], {}, True),
    "I2": (["correct_tip_offset"], {}, True),
    "I3": (P1, {"correct_tip_offset": {"method": "bogus"}}, True),
    "I4": (P1, {"correct_tip_offset": {"nokey": 1}}, True),
    "I5": (PS, {"correct_force_slope": {"strategy": "bogus"}}, True),
    "I6": (PS, {"correct_force_slope": {"region": "bogus"}}, True),
    # the step itself would run happily without its prerequisite
    "I7": (["compute_tip_position", "correct_force_slope"], {}, True),
    "I8": (["compute_tip_position", "correct_split_approach_retract",
            "correct_force_slope", "correct_tip_offset"], {}, True),
}

OWNED = ["force", "tip position", "segment", "height (measured)",
         "height (piezo)", "time"]


def ref_rejected(steps, options):
    """reference predicate written from the documentation of the steps"""
    from nanite import poc
    known = {"compute_tip_position": [], "correct_force_offset": [],
             "correct_force_slope": ["correct_tip_offset"],
             "correct_tip_offset": ["compute_tip_position"],
             "correct_split_approach_retract": ["compute_tip_position"],
             "smooth_height": []}
    allowed = {"correct_tip_offset": {"method": [p.identifier for p in
                                                 poc.POC_METHODS]},
               "correct_force_slope": {"region": ["baseline", "approach",
                                                  "all"],
                                       "strategy": ["drift", "shift"]}}
    for i, s in enumerate(steps):
        if s not in known:
            return True
        if not set(known[s]) <= set(steps[:i]):
            return True
        for k, v in options.get(s, {}).items():
            if s not in allowed or k not in allowed[s] \
                    or v not in allowed[s][k]:
                return True
    return False


_MEMO = {}


def _inplace(dst, src):
    """make dictionary `dst` equal to `src` without replacing nested
    dictionaries that both have"""
    for k in list(dst):
        if k not in src:
            del dst[k]
    for k, v in src.items():
        if isinstance(v, dict) and isinstance(dst.get(k), dict):
            _inplace(dst[k], v)
        else:
            dst[k] = copy.deepcopy(v)


class Driver(hist.Driver):
    prop = PROP
    name = "synthetic"
    fixture = "synth"

    def __init__(self):
        self.ops = []
        for rid, (steps, options, rej) in REQUESTS.items():
            self.ops.append(["P", steps, options, False, rid])
            self.ops.append(["P", steps, options, True, rid])
            self.ops.append(["F", {"preprocessing": steps,
                                   "preprocessing_options": options}, rid])
        self.ops += [["F", {}, None], ["F", {"weight_cp": 0}, None],
                     ["R", "Decision Tree", "zef18", None, None]]
        # options handed to fit_model without the step list: they apply to
        # the current pipeline (rid "O:<rid>" = current steps + these options)
        for rid in ("V2", "V3", "V4"):
            self.ops.append(["F", {"preprocessing_options":
                                   REQUESTS[rid][1]}, "O:" + rid])
        # a client that keeps ONE steps list / options dictionary and edits
        # it in place between requests (nested per-step dictionaries too)
        for rid in self.shared_rids:
            steps, options, rej = REQUESTS[rid]
            self.ops.append(["P", steps, options, False, rid, "shared"])

    shared_rids = ("V2", "V3", "V4", "V5", "V6")

    def fresh_idnt(self):
        tr = synth.truth_params("hertz_para", E=3000.0, contact_point=2e-7,
                                baseline=1e-10)
        return synth.make_curve("hertz_para", tr, n_app=150, n_ret=150,
                                noise=3e-11, seed=2, tilt=3e-5, drift=2e-10,
                                innate_tip=False)

    def fresh(self):
        idnt = self.fresh_idnt()
        idnt._verif_raw = cn.raw_digest(idnt)
        return idnt

    def apply(self, idnt, op):
        if op[0] == "P" and len(op) > 5:
            sh = idnt.__dict__.setdefault("_verif_shared",
                                          {"steps": [], "options": {}})
            sh["steps"][:] = op[1]
            _inplace(sh["options"], op[2])
            exc = None
            try:
                idnt.apply_preprocessing(sh["steps"], sh["options"])
            except BaseException as e:
                if isinstance(e, (KeyboardInterrupt, SystemExit,
                                  MemoryError)):
                    raise
                exc = ops.short_exc(e)
            return {"ok": exc is None, "exc": exc, "minimize": 0,
                    "trainings": 0, "ret": None}
        return ops.apply_op(idnt, op[:4] if op[0] == "P" else op[:2]
                            if op[0] == "F" else op)

    def canon(self, idnt):
        return cn.indent_canon(idnt)

    def pre_info(self, idnt, op):
        fp = idnt.fit_properties
        return {"canon": cn.indent_canon(idnt),
                "stored": (cn.norm(fp.get("preprocessing", "<none>")),
                           cn.norm(fp.get("preprocessing_options",
                                          "<none>"))),
                "has_details": bool(idnt._preprocessing_details),
                "steps_now": list(idnt.preprocessing or []),
                "owned": self.owned(idnt)}

    def owned(self, idnt):
        return {c: cn.digest(np.asarray(idnt[c])) for c in OWNED
                if c in idnt}

    def reference_columns(self, steps, options):
        key = json.dumps([self.name, steps, options], sort_keys=True)
        if key not in _MEMO:
            o = self.fresh_idnt()
            try:
                if steps is not None:
                    o.apply_preprocessing(copy.deepcopy(steps),
                                          copy.deepcopy(options))
                _MEMO[key] = self.owned(o)
            except BaseException as e:
                if isinstance(e, (KeyboardInterrupt, SystemExit)):
                    raise
                _MEMO[key] = ("raises", repr(e))
        return _MEMO[key]

    def check_transition(self, pre, op, obs, idnt, hops):
        out = []
        case = self.case(hops)
        rid = op[4] if op[0] == "P" else (op[2] if op[0] == "F" else None)

        def viol(clause, detail):
            out.append(V(PROP, clause,
                         site={"P": "apply_preprocessing",
                               "F": "fit_model"}.get(op[0], op[0]),
                         witness=f"{rid or op[0]}"
                                 + (":ret_details" if op[0] == "P" and op[3]
                                    else "")
                                 + (":shared" if op[0] == "P" and len(op) > 5
                                    else ""),
                         detail=detail, case=case, kind="hist"))
        if rid is None:
            # fits and ratings must not touch preprocessing-owned columns
            if self.owned(idnt) != pre["owned"]:
                viol("foreign-column-changed", "a fit/rating changed "
                     "preprocessing-owned columns")
            return out
        if rid.startswith("O:"):
            # options only: they go with the pipeline the curve has now
            steps, options = list(pre["steps_now"]), REQUESTS[rid[2:]][1]
        else:
            steps, options, _ = REQUESTS[rid]
        must_reject = ref_rejected(steps, options)
        req = (cn.norm(steps), cn.norm(options))
        fp = idnt.fit_properties
        stored = (cn.norm(fp.get("preprocessing", "<none>")),
                  cn.norm(fp.get("preprocessing_options", "<none>")))
        reported = (cn.norm(idnt.preprocessing),
                    cn.norm(idnt.preprocessing_options))
        if must_reject:
            if obs["ok"]:
                viol("rejected-then-accepted" if pre["stored"] == req
                     else "invalid-accepted",
                     "a request the reference rejects was accepted "
                     f"(stored before the call: {pre['stored'] == req})")
            if stored == req or reported == req:
                viol("rejected-reported", "the rejected request is "
                     "reported as applied (fit_properties: "
                     f"{stored == req}, .preprocessing: {reported == req})")
        else:
            if not obs["ok"] and obs["exc"] not in ("KeyError",) \
                    and op[0] == "P":
                viol("valid-rejected", f"valid request raised {obs['exc']}")
            if obs["ok"]:
                ref = self.reference_columns(steps, options)
                now = self.owned(idnt)
                if ref != now:
                    bad = sorted(c for c in set(ref) | set(now)
                                 if (ref.get(c) if isinstance(ref, dict)
                                     else None) != now.get(c))
                    viol("history-dependence", f"columns {bad} differ from "
                         "the same request applied to a fresh curve")
                if stored != req or reported != req:
                    viol("accepted-not-reported", "an accepted request is "
                         "not what the curve reports as applied")
                if pre["stored"] == req:
                    # re-applying the same pipeline changes nothing
                    if op[0] == "P" and (not op[3] or pre["has_details"]):
                        if cn.indent_canon(idnt) != pre["canon"]:
                            viol("reapply-changes", "re-applying the stored "
                                 "pipeline changed the curve state")
                    elif now != pre["owned"]:
                        viol("reapply-changes", "re-applying the stored "
                             "pipeline changed preprocessed columns")
        return out

    def check_state(self, idnt, hops):
        out = []
        case = self.case(hops)
        if cn.raw_digest(idnt) != idnt._verif_raw:
            out.append(V(PROP, "raw-modified", site="state",
                         witness=json.dumps(hops[-1])[:80] if hops else "",
                         detail="recorded raw data changed", case=case,
                         kind="hist"))
        fp = idnt.fit_properties
        if "preprocessing" in fp:
            ref = self.reference_columns(
                fp["preprocessing"], fp.get("preprocessing_options", {}))
        else:
            ref = self.reference_columns(None, None)
        now = self.owned(idnt)
        if ref != now:
            out.append(V(PROP, "history-dependence", site="state",
                         witness=json.dumps(hops[-1])[:80] if hops else "",
                         detail="preprocessed columns are not those of the "
                         f"stored pipeline {fp.get('preprocessing')} / "
                         f"{fp.get('preprocessing_options')} on a fresh "
                         f"curve (reference: {ref if not isinstance(ref, dict) else 'columns'})",
                         case=case, kind="hist"))
        return out

    def state_stats(self, idnt):
        return {"distinct_force_columns":
                cn.digest(np.asarray(idnt["force"])),
                "preprocessed_states":
                int("preprocessing" in idnt.fit_properties)}


class Recorded(Driver):
    name = "recorded"

    def __init__(self):
        super().__init__()
        keep = ("V2", "V3", "V5", "V7", "V8", "V9", "V10", "V11", "V12",
                "I1", "I3", "I5")
        self.ops = [o for o in self.ops
                    if (o[0] == "P" and o[4] in keep and not o[3])
                    or (o[0] == "F" and (o[2] in keep or o[2] is None)
                        and o[1].get("weight_cp") is None)]

    def fresh_idnt(self):
        from nanite import IndentationGroup
        return IndentationGroup(
            "/repo/tests/data/fmt-jpk-fd_spot3-0192.jpk-force")[0]


class Tilted(Recorded):
    name = "recorded_tilted"

    def fresh_idnt(self):
        from nanite import IndentationGroup
        return IndentationGroup(
            "/repo/tests/data/fmt-jpk-fd_single_tilted-baseline-drift-"
            "mitotic_2021-01-29.jpk-force")[0]


DRIVERS = {d.name: d for d in (Driver(), Recorded(), Tilted())}


def replay(doc):
    return hist.replay_case(doc["case"])


def run(tier):
    rep = Report(PROP, tier, LEVEL)
    plan = {"quick": [("synthetic", 2), ("recorded", 2)],
            "thorough": [("synthetic", 3), ("recorded", 3),
                         ("recorded_tilted", 2)]}[tier]
    sc = hist.selfcheck_start(__name__, "synthetic", [6, 40, 2, 12])
    forces = set()
    for name, depth in plan:
        drv = DRIVERS[name]
        seen, info = hist.search(drv, rep, depth, merge_check="full")
        forces |= info["raw_stats"].get("distinct_force_columns", set())
        hs = sorted((h for h, _ in seen.values()), key=len)
        rep.sample({"driver": name, "history": [drv.ops[i] for i in hs[-1]]})
    hist.selfcheck_finish(sc, rep, "synthetic")
    rep.set("distinct_force_columns", len(forces))
    rep.set("requests", {k: {"steps": v[0], "options": v[1],
                             "must_reject": v[2]}
                         for k, v in REQUESTS.items()})
    rep.set("exhaustive", True)
    rep.set("bounds", dict(plan))
    rep.assumptions += [
        "the request set is 7 valid + 6 invalid (steps, options) pairs, each "
        "through apply_preprocessing (with/without ret_details) and "
        "fit_model(preprocessing=...); all sequences up to the depth bound",
        "'reported as applied' = fit_properties['preprocessing'(_options)] "
        "and Indentation.preprocessing(_options)",
    ]
    return rep
