"""C20 - loading yields one object per recorded curve; maps put values at
their pixel.  GRID over synthetic measurement files (shape x scan order x
missing curve), folders, metadata variants and recorded files; HIST over
fit / refit / edit / rate / preprocess on the curves of a 2x2 map with the
pixel oracle in every state."""
import itertools
import json
import os
import shutil
import tempfile
import warnings

import numpy as np

from .. import canon as cn
from .. import hist, ops, synth, VERIF_ROOT
from ..core import Report, V, pmap, chunks, shuffled

PROP = "C20"
LEVEL = "model_checking"

FEATS = {"E": "fit: Young's modulus", "cp": "fit: contact point",
         "rating": "fit: rating"}
P0 = ["compute_tip_position"]
P1 = ["compute_tip_position", "correct_force_offset", "correct_tip_offset"]

_TMP = None


def tmpdir():
    global _TMP
    if _TMP is None:
        base = "/dev/shm" if os.path.isdir("/dev/shm") else \
            os.path.join(VERIF_ROOT, "scratch")
        _TMP = tempfile.mkdtemp(prefix="verif_c20_", dir=base)
        # library code under test also creates temporary directories
        # (load_hdf5); keep them inside the per-run scratch directory
        tempfile.tempdir = _TMP
        import atexit
        atexit.register(shutil.rmtree, _TMP, True)
    return _TMP


def scan_order(nx, ny, name):
    cells = [(x, y) for y in range(ny) for x in range(nx)]
    if name == "row":
        return cells
    if name == "col":
        return [(x, y) for x in range(nx) for y in range(ny)]
    if name == "serp":
        out = []
        for y in range(ny):
            row = [(x, y) for x in range(nx)]
            out += row if y % 2 == 0 else row[::-1]
        return out
    if name == "rev":
        return cells[::-1]
    rs = np.random.RandomState(7 if name == "perm1" else 11)
    idx = rs.permutation(len(cells))
    return [cells[i] for i in idx]


def E_of(ix, iy):
    return 1000.0 * (1 + ix + 10 * iy)


def write_map(path, nx, ny, order, missing=None, n_app=100, spring=True,
              innate_tip=False, noise=0.0):
    """afmformats-HDF5 map; every curve has its own modulus"""
    import h5py
    cells = scan_order(nx, ny, order)
    if missing is not None:
        cells = [c for i, c in enumerate(cells) if i != missing]
    with h5py.File(path, "w") as h5:
        for en, (ix, iy) in enumerate(cells):
            tr = synth.truth_params("hertz_para", E=E_of(ix, iy),
                                    contact_point=1e-7 * (1 + ix))
            c = synth.make_curve("hertz_para", tr, n_app=n_app, n_ret=n_app,
                                 innate_tip=innate_tip, path=str(path),
                                 enum=en, noise=noise, seed=en + 1)
            c.export_data(h5, metadata=True, fmt="hdf5")
            g = h5[str(en)]
            meta = {"grid index x": ix, "grid index y": iy,
                    "grid shape x": nx, "grid shape y": ny,
                    "grid size x": nx * 1e-6, "grid size y": ny * 1e-6,
                    "grid center x": 0.0, "grid center y": 0.0,
                    "position x": (ix - nx / 2 + .5) * 1e-6,
                    "position y": (iy - ny / 2 + .5) * 1e-6}
            for k, v in meta.items():
                g.attrs[k] = v
            if not spring:
                del g.attrs["spring constant"]
    return cells


def qmap_values(qm):
    """{feature: (2d array, number of DataMissingWarnings)}"""
    from nanite.qmap import DataMissingWarning
    out = {}
    for k, name in FEATS.items():
        with warnings.catch_warnings(record=True) as w:
            warnings.simplefilter("always")
            m = qm.get_qmap(name, qmap_only=True)
        out[k] = (m, sum(1 for x in w
                         if issubclass(x.category, DataMissingWarning)))
    return out


def pixel_oracle(qm, cells, shape, case, site):
    """every pixel holds its own curve's current value, NaN + warning
    otherwise"""
    out = []
    nx, ny = shape

    def viol(clause, wit, detail):
        out.append(V(PROP, clause, site=site, witness=wit, detail=detail,
                     case=case, kind=case.get("kind", "hist")))
    # the curves' own current values are read *before* the map is asked
    # for (asking for a map must not change what the curves hold)
    expected = {}
    for k in FEATS:
        exp = np.full((ny, nx), np.nan)
        expwarn = 0
        for idnt, (ix, iy) in zip(qm.group, cells):
            fp = idnt.fit_properties
            if k in ("E", "cp"):
                if fp.get("success", False) and "params_fitted" in fp:
                    p = fp["params_fitted"]
                    exp[iy, ix] = p["E"].value if k == "E" else \
                        p["contact_point"].value * 1e9
                else:
                    expwarn += 1
            else:
                r = idnt.get_rating_parameters()["Rating"]
                if idnt._rating is None or (isinstance(r, float)
                                            and np.isnan(r)):
                    expwarn += 1
                else:
                    exp[iy, ix] = r
        expected[k] = (exp, expwarn)
    before = [cn.indent_canon(g) for g in qm.group]
    try:
        vals = qmap_values(qm)
    except BaseException as e:
        if isinstance(e, (KeyboardInterrupt, SystemExit, MemoryError)):
            raise
        viol("map-raises", type(e).__name__, f"computing the maps raised "
             f"{e!r}")
        return out
    if [cn.indent_canon(g) for g in qm.group] != before:
        viol("map-changes-curve", "get_qmap", "computing the maps changed "
             "the state of a curve (fit, columns or remembered rating)")
    # the caller owns the arrays it was handed: editing them in place must
    # not change what the next request returns
    try:
        keep = {k: np.array(m, copy=True) for k, (m, _) in vals.items()}
        for k, (m, _) in vals.items():
            if isinstance(m, np.ndarray) and m.flags.writeable:
                m *= 1e-3
        again = qmap_values(qm)
        for k, (m, _) in vals.items():
            if isinstance(m, np.ndarray) and m.flags.writeable:
                m[...] = keep[k]              # (back, for the checks below)
        for k in vals:
            if not np.array_equal(again[k][0], expected[k][0],
                                  equal_nan=True):
                viol("pixel-value", k + ":after-caller-edit", "after the "
                     "caller scaled the array of an earlier request in "
                     f"place, the map {FEATS[k]!r} is {again[k][0].tolist()}"
                     f" instead of {expected[k][0].tolist()}")
    except BaseException as e:
        if isinstance(e, (KeyboardInterrupt, SystemExit, MemoryError)):
            raise
        viol("map-raises", type(e).__name__, f"second request raised {e!r}")
    for k, (m, nwarn) in vals.items():
        if m.shape != (ny, nx):
            viol("pixel-value", k, f"map shape {m.shape} != {(ny, nx)}")
            continue
        exp, expwarn = expected[k]
        if not np.array_equal(m, exp, equal_nan=True):
            bad = np.argwhere(~((m == exp) | (np.isnan(m) & np.isnan(exp))))
            clause = "pixel-unit" if k == "cp" and np.nanmax(
                np.abs(m / exp - 1)) > 0.5 else "pixel-value"
            if np.any(np.isnan(m) != np.isnan(exp)):
                clause = "pixel-nan"
            viol(clause, k, f"feature {FEATS[k]!r}: map {m.tolist()} vs "
                 f"per-curve values at their pixel {exp.tolist()} (first "
                 f"differing pixel [y, x] = {bad[0].tolist()})")
        if nwarn != expwarn:
            viol("missing-warning", k, f"{nwarn} DataMissingWarnings, "
                 f"{expwarn} curves without a value")
    return out


# ----------------------------------------------------------- file grid

def file_case(case):
    from nanite import IndentationGroup, QMap, load_group
    from afmformats.errors import MissingMetaDataError
    import afmformats
    out = []
    kind = case["sub"]
    d = tempfile.mkdtemp(dir=tmpdir())

    def viol(clause, wit, detail):
        out.append(V(PROP, clause, site=kind, witness=wit, detail=detail,
                     case=case, kind="file"))
    try:
        if kind == "map":
            nx, ny = case["shape"]
            path = os.path.join(d, "map.h5")
            cells = write_map(path, nx, ny, case["order"], case["missing"])
            cb = []
            grp = IndentationGroup(path, callback=cb.append)
            _check_group(grp, [(path, i) for i in range(len(cells))], cb,
                         viol)
            qm = QMap(path)
            if len(qm.group) != len(cells):
                viol("count", "qmap", f"{len(qm.group)} vs {len(cells)}")
            out += pixel_oracle(qm, cells, (nx, ny), case, "map:unfitted")
            for i, idnt in enumerate(qm.group):
                if i % 3 == 2 and len(cells) > 2:
                    continue        # leave some curves unfitted
                idnt.apply_preprocessing(list(P0))
                idnt.fit_model(model_key="hertz_para", weight_cp=0)
                if i % 2 == 0:
                    idnt.rate_quality(regressor="Decision Tree")
            out += pixel_oracle(qm, cells, (nx, ny), case, "map:fitted")
            # ground truth: the fitted modulus is the one of that pixel
            m = qm.get_qmap(FEATS["E"], qmap_only=True)
            for (ix, iy) in cells:
                if not np.isnan(m[iy, ix]) and \
                        abs(m[iy, ix] / E_of(ix, iy) - 1) > 1e-4:
                    viol("pixel-value", "truth", f"pixel ({ix},{iy}) holds "
                         f"E={m[iy, ix]}, generated with {E_of(ix, iy)}")
        elif kind == "folder":
            expect = []
            if case.get("root"):
                # the data folder lies below a directory with a leading dot
                d0, d = d, os.path.join(d, case["root"])
                os.makedirs(d)
            for rel, spec in case["files"]:
                p = os.path.join(d, rel)
                os.makedirs(os.path.dirname(p), exist_ok=True)
                if isinstance(spec, str):
                    # a recorded file (its reader reports progress per curve)
                    shutil.copy(os.path.join("/repo/tests/data", spec), p)
                else:
                    cells = write_map(p, spec[0], spec[1], "row")
            cb = []
            grp = load_group(d, callback=cb.append)
            for pp in afmformats.find_data(d, modality="force-distance"):
                expect += [(str(pp), g.enum) for g in IndentationGroup(pp)]
            _check_group(grp, expect, cb, viol)
            if case.get("root"):
                # ... and every single file of it
                for pp in afmformats.find_data(d, modality="force-distance"):
                    cb1 = []
                    g1 = load_group(pp, callback=cb1.append)
                    _check_group(g1, [(str(pp), g.enum)
                                      for g in IndentationGroup(pp)], cb1,
                                 viol)
                d = d0
        elif kind == "assembled":
            # maps of hand-assembled groups: every non-empty subset of the
            # curves of one map file, in file order and reversed, one after
            # the other in one process
            nx, ny = case["shape"]
            path = os.path.join(d, "map.h5")
            cells = write_map(path, nx, ny, case["order"], None)
            src = IndentationGroup(path)
            for i, idnt in enumerate(src):
                if i % 3 != 2:
                    idnt.apply_preprocessing(list(P0))
                    idnt.fit_model(model_key="hertz_para", weight_cp=0)
            idx = list(range(len(src)))
            subsets = [list(c) for r in range(1, len(idx) + 1)
                       for c in itertools.combinations(idx, r)]
            if len(subsets) > 40:
                subsets = subsets[:20] + subsets[-20:]
            for sub in subsets:
                for seq in (sub, sub[::-1]):
                    grp = IndentationGroup()
                    for i in seq:
                        grp.append(src[i])
                    qm = QMap(grp)
                    sc = dict(case, subset=seq)
                    out += pixel_oracle(qm, [cells[i] for i in seq],
                                        (nx, ny), sc, "assembled-group")
        elif kind == "meta":
            if case.get("csv"):
                path = os.path.join(d, "w.csv")
                shutil.copy("/repo/tests/data/fmt-afm-workshop-fd_single_"
                            "2021-10-22_14.16.csv", path)
                has_spring, has_tip = False, False
            else:
                path = os.path.join(d, "m.h5")
                write_map(path, 2, 1, "row", spring=case["spring"],
                          innate_tip=case["tip"])
                has_spring, has_tip = case["spring"], case["tip"]
            ncurves = 1 if case.get("csv") else 2
            if not (has_spring or has_tip or case["override"]):
                # appending to an existing group
                from nanite.read import load_data
                good = os.path.join(d, "good.h5")
                write_map(good, 2, 1, "row")
                os.makedirs(os.path.join(d, "sub"))
                grp0 = IndentationGroup(good)
                n0 = len(grp0)
                import afmformats
                bad = afmformats.load_data(path, modality="force-distance")
                from nanite.indent import Indentation
                for how in ("append", "iadd"):
                    try:
                        if how == "append":
                            grp0.append(bad[0])
                        else:
                            grp0 += [bad[0]]
                        viol("refusal", how, "curve with neither spring "
                             "constant nor tip position was accepted by "
                             f"{how}")
                    except MissingMetaDataError:
                        pass
                    if len(grp0) != n0 or any(g is bad[0] for g in grp0):
                        viol("refusal", how + ":member", f"after the "
                             f"refused {how} the group holds {len(grp0)} "
                             f"curves (had {n0})")
                        break
                os.remove(good)
                shutil.rmtree(os.path.join(d, "sub"))
                # the group already holds curves of the very same file
                # (loaded with the missing value supplied by the caller);
                # the file's curves as they are must still be refused
                # (afmformats implements the override for the text format)
                try:
                    if not case.get("csv"):
                        raise StopIteration
                    grp1 = IndentationGroup(
                        path, meta_override={"spring constant": 0.123})
                    n1 = len(grp1)
                    raw = load_data(path)
                    for how in ("append", "iadd"):
                        try:
                            if how == "append":
                                grp1.append(raw[0])
                            else:
                                grp1 += raw
                            viol("refusal", how + ":same-file", "curve with "
                                 "neither spring constant nor tip position "
                                 f"was accepted by {how} into a group that "
                                 "holds curves of the same file")
                        except MissingMetaDataError:
                            pass
                        if len(grp1) != n1:
                            viol("refusal", how + ":same-file:member",
                                 f"after the refused {how} the group holds "
                                 f"{len(grp1)} curves (had {n1})")
                            break
                except StopIteration:
                    pass
                except BaseException as e:
                    if isinstance(e, (KeyboardInterrupt, SystemExit,
                                      MemoryError)):
                        raise
                    viol("refusal", "same-file:raises", repr(e))
            mo = {"spring constant": 0.123} if case["override"] else None
            should_refuse = not (has_spring or has_tip or case["override"])
            for loader in ("IndentationGroup", "load_group"):
                try:
                    if loader == "IndentationGroup":
                        grp = IndentationGroup(path, meta_override=mo)
                    else:
                        grp = load_group(d, meta_override=mo)
                    if should_refuse:
                        viol("refusal", json.dumps(case)[:80], "a curve "
                             "with neither spring constant nor tip position "
                             f"was accepted by {loader}")
                    else:
                        if len(grp) != ncurves:
                            viol("count", "meta", f"{len(grp)} curves")
                        if mo and any(
                                g.metadata["spring constant"] != 0.123
                                for g in grp):
                            viol("meta-override", "spring constant",
                                 "override not applied")
                except MissingMetaDataError as e:
                    if not should_refuse:
                        viol("refusal", json.dumps(case)[:80], "refused a "
                             f"loadable curve: {e!r}")
        elif kind == "recorded":
            path = os.path.join("/repo/tests/data", case["file"])
            cb = []
            grp = IndentationGroup(path, callback=cb.append)
            n = len(grp)
            _check_group(grp, [(path, None)] * n, cb, viol, enums=False)
            if len({g.enum for g in grp}) != n:
                viol("enum-unique", case["file"], "duplicate enums")
            if case.get("qmap"):
                qm = QMap(path)
                cells = [(int(g.metadata["grid index x"]),
                          int(g.metadata["grid index y"])) for g in qm.group]
                shape = (int(qm.shape[0]), int(qm.shape[1]))
                for i, idnt in enumerate(qm.group):
                    if i % 2 == 0:
                        idnt.apply_preprocessing(list(P1))
                        idnt.fit_model(model_key="hertz_para")
                        idnt.rate_quality(regressor="Decision Tree")
                out += pixel_oracle(qm, cells, shape, case, "recorded")
    finally:
        shutil.rmtree(d, ignore_errors=True)
    return out


def _check_group(grp, expect, cb, viol, enums=True):
    if len(grp) != len(expect):
        viol("count", "group", f"{len(grp)} objects for {len(expect)} "
             "recorded curves")
        return
    got = [(str(g.path), g.enum) for g in grp]
    if enums and got != [(str(p), e) for p, e in expect]:
        viol("order", "group", f"order {got[:6]} vs file order "
             f"{expect[:6]}")
    per = {}
    for p, e in got:
        per.setdefault(p, []).append(e)
    for p, es in per.items():
        if len(set(es)) != len(es):
            viol("enum-unique", "group", f"duplicate enums in {p}: {es}")
    if cb:
        arr = np.array(cb, dtype=float)
        if not np.all(np.diff(arr) >= 0) or not arr.min() >= 0 \
                or not arr.max() <= 1 \
                or arr[-1] != 1:
            viol("callback", "group", f"callback sequence {cb[:12]}... is "
                 "not non-decreasing within [0, 1] ending at 1")
    elif len(grp):
        viol("callback", "group", "callback never called")


def file_cases(tier):
    cases = []
    shapes = [(1, 1), (1, 3), (3, 1), (2, 2), (3, 2)]
    orders = ["row", "col", "serp", "rev", "perm1", "perm2"]
    for sh in shapes:
        for od in orders:
            for missing in (None, 1):
                if missing is not None and sh[0] * sh[1] < 2:
                    continue
                if tier == "quick" and sh in ((1, 3), (3, 1)) and \
                        od in ("perm1", "perm2", "serp"):
                    continue
                cases.append({"kind": "file", "sub": "map", "shape": sh,
                              "order": od, "missing": missing})
    folders = [
        [("a.h5", (1, 1))],
        [("a.h5", (2, 2)), ("b.h5", (1, 1))],
        [("x/a.h5", (2, 1)), ("x/y/b.h5", (1, 1)), ("c.h5", (1, 2))],
        [("m1.h5", (2, 2)), ("m2.h5", (3, 1)), ("m3.h5", (2, 2)),
         ("s.h5", (1, 1))],
        [("p/m1.h5", (3, 2)), ("q/m2.h5", (3, 2))],
        [("a.jpk-force-map", "fmt-jpk-fd_map2x2_extracted.jpk-force-map"),
         ("b.jpk-force-map",
          "fmt-jpk-fd_map-data-reference-points.jpk-force-map"),
         ("c.jpk-force", "fmt-jpk-fd_spot3-0192.jpk-force")],
        [("x/b.jpk-force-map",
          "fmt-jpk-fd_map-data-reference-points.jpk-force-map"),
         ("y/a.jpk-force-map", "fmt-jpk-fd_map2x2_extracted.jpk-force-map"),
         ("y/d.jpk-force-map", "fmt-jpk-fd_map1d_2016-11-07.jpk-force-map"),
         ("z.h5", (2, 2))],
    ]
    for f in folders:
        cases.append({"kind": "file", "sub": "folder", "files": f})
    # hidden directories above, and inside, the data folder
    cases.append({"kind": "file", "sub": "folder", "files": folders[1],
                  "root": ".archive/session1"})
    cases.append({"kind": "file", "sub": "folder", "files": folders[5],
                  "root": ".cache"})
    cases.append({"kind": "file", "sub": "folder", "files": [
        ("x/.y/a.h5", (2, 1)), (".z/b.h5", (1, 1)), ("c.h5", (1, 2))]})
    for sh, od in (((2, 2), "perm1"), ((3, 1), "rev"), ((2, 3), "serp")):
        if tier == "quick" and sh == (2, 3):
            continue
        cases.append({"kind": "file", "sub": "assembled", "shape": sh,
                      "order": od})
    for spring, tip in itertools.product((True, False), repeat=2):
        cases.append({"kind": "file", "sub": "meta", "spring": spring,
                      "tip": tip, "override": False})
    for ov in (False, True):
        cases.append({"kind": "file", "sub": "meta", "csv": True,
                      "override": ov})
    rec = [("fmt-jpk-fd_map2x2_extracted.jpk-force-map", True),
           ("fmt-jpk-fd_map1d_2016-11-07.jpk-force-map", False),
           ("fmt-jpk-fd_map0d_extracted.jpk-force-map", False),
           ("fmt-jpk-fd_spot3-0192.jpk-force", False),
           ("fmt-jpk-fd_map-data-reference-points.jpk-force-map", False)]
    for f, q in rec:
        cases.append({"kind": "file", "sub": "recorded", "file": f,
                      "qmap": q})
    return cases


def _file_work(chunk):
    res = []
    for c in chunk:
        try:
            res.append((c, file_case(c), None))
        except BaseException as e:
            if isinstance(e, (KeyboardInterrupt, SystemExit)):
                raise
            res.append((c, [], repr(e)))
    return res


# ------------------------------------------------------------- map HIST

MAP_FIX = os.path.join(VERIF_ROOT, "scratch", "c20_map2x2.h5")
MAP_CELLS = None


def ensure_map():
    global MAP_CELLS
    if not os.path.exists(MAP_FIX):
        os.makedirs(os.path.dirname(MAP_FIX), exist_ok=True)
        tmp = MAP_FIX + f".{os.getpid()}.tmp.h5"
        write_map(tmp, 2, 2, "perm1", n_app=100, noise=1e-11)
        os.replace(tmp, MAP_FIX)
    MAP_CELLS = scan_order(2, 2, "perm1")
    return MAP_FIX


class MapDriver(hist.Driver):
    prop = PROP
    name = "map2x2"

    def __init__(self, curves=(0, 1, 2, 3)):
        self.ops = []
        for i in curves:
            self.ops += [["fit", i, {"model_key": "hertz_para",
                                     "weight_cp": 0}],
                         ["fit", i, {"model_key": "hertz_cone"}],
                         ["fit", i, {"model_key": "hertz_para",
                                     "gcf_k": 0.5}],
                         ["fit", i, {"model_key": "hertz_para",
                                     "range_type": "relative cp",
                                     "range_x": [-1e-10, 1e-10]}],
                         ["edit", i, "weight_cp", 2e-7],
                         ["rate", i],
                         ["rate", i, "subset+lda"],
                         ["pre", i, P0]]

    def fresh(self):
        from nanite import QMap
        ensure_map()
        return QMap(MAP_FIX)

    def apply(self, qm, op):
        idnt = qm.group[op[1]]
        if op[0] == "fit":
            o = ["F", op[2]]
        elif op[0] == "edit":
            o = ["E", op[2], op[3]]
        elif op[0] == "rate" and len(op) > 2:
            # a rating with a feature subset and the LDA flag
            o = ["R", "Decision Tree", "zef18",
                 ["feat_bin_size", "feat_con_apr_flatness",
                  "feat_con_apr_size", "feat_con_bln_slope",
                  "feat_con_idt_maxima_75perc", "feat_con_idt_sum"], True]
        elif op[0] == "rate":
            o = ["R", "Decision Tree", "zef18", None, None]
        else:
            o = ["P", op[2], {}, False]
        return ops.apply_op(idnt, o)

    def canon(self, qm):
        return cn.digest([cn.indent_canon(g) for g in qm.group])

    def check_state(self, qm, hops):
        return pixel_oracle(qm, MAP_CELLS, (2, 2), self.case(hops),
                            "map-history")

    def state_stats(self, qm):
        return {"fitted_curves": sum(
            1 for g in qm.group if g.fit_properties.get("success"))}


DRIVERS = {"map2x2": MapDriver(),
           "map2x2_two": MapDriver(curves=(0, 3))}
DRIVERS["map2x2_two"].name = "map2x2_two"


def replay(doc):
    ensure_map()
    if doc.get("kind") == "file":
        return file_case(doc["case"])
    return hist.replay_case(doc["case"])


def run(tier):
    rep = Report(PROP, tier, LEVEL)
    ensure_map()
    cases = file_cases(tier)
    n = 0
    for res in pmap(_file_work, chunks(shuffled(cases), 3)):
        for c, vs, err in res:
            n += 1
            rep.extend(vs)
            if err:
                rep.harness(f"file case {c} crashed: {err}")
    rep.set("file_cases", n)
    rep.add("transitions", n)
    rep.add("traces_validated_against_impl", n)
    rep.sample(cases[3])
    rep.sample(cases[-1])
    plan = {"quick": [("map2x2_two", 4), ("map2x2", 2)],
            "thorough": [("map2x2_two", 6), ("map2x2", 4)]}[tier]
    for name, depth in plan:
        drv = DRIVERS[name]
        seen, info = hist.search(drv, rep, depth, merge_check=("full" if tier == "thorough" else True))
        hs = sorted((h for h, _ in seen.values()), key=len)
        rep.sample({"driver": name, "history": [drv.ops[i] for i in hs[-1]]})
    rep.set("exhaustive", True)
    rep.set("bounds", dict(plan))
    rep.assumptions += [
        "'current rating' of a curve on a map is the curve's own last "
        "computed rating (get_rating_parameters()['Rating'])",
        "a pixel without a recorded curve is NaN (no warning can name it); "
        "unfitted / unrated curves give NaN and one DataMissingWarning each",
        "folder order is the order of afmformats.find_data on that folder",
    ]
    return rep
