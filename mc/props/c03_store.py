"""C03 layer A - the real FitProperties dictionary explored to closure.

State = content of the dictionary (FitProperties has no other attributes,
so a state is rebuilt exactly by `dict.update`, which bypasses the
reset logic under test).  Every transition calls the real `__setitem__`,
`reset`, `restore` or `update`.  Reference model: a plain dict plus a ghost
bit "results valid".
"""
import collections
import time

from .. import canon as cn
from ..core import V, pmap, chunks

PROP = "C03"

ABSENT = "<absent>"


def _pi(name):
    import lmfit
    P = lmfit.Parameters()
    P.add("E", value=3e3, min=0)
    P.add("contact_point", value=0)
    if name == "PB":
        P["E"].set(vary=False)
    if name == "PC":
        P["contact_point"].set(value=1e-9)     # tiny in SI units
    return P


#: key -> list of value builders (fresh object per write)
DOMAIN = collections.OrderedDict([
    ("model_key", [lambda: "hertz_para", lambda: "hertz_cone"]),
    ("optimal_fit_edelta", [lambda: False, lambda: True]),
    ("optimal_fit_num_samples", [lambda: 100, lambda: 7]),
    ("params_initial", [lambda: None, lambda: _pi("PA"), lambda: _pi("PB"),
                        lambda: _pi("PC")]),
    ("preprocessing", [lambda: [], lambda: ["compute_tip_position"]]),
    ("preprocessing_options", [lambda: {}, lambda: {
        "correct_tip_offset": {"method": "fit_constant_line"}}]),
    ("range_type", [lambda: "absolute", lambda: "relative cp"]),
    ("range_x", [lambda: [0, 0], lambda: [1e-7, 0], lambda: [0, 1e-6],
                 lambda: [5e-9, 0]]),
    ("segment", [lambda: 0, lambda: 1]),
    ("weight_cp", [lambda: 1e-6, lambda: 0, lambda: 1.002e-6]),
    ("gcf_k", [lambda: 1.0, lambda: 0.5, lambda: 1.000004]),
    ("x_axis", [lambda: "tip position", lambda: "height (measured)"]),
    ("y_axis", [lambda: "force", lambda: "time"]),
    ("method", [lambda: "leastsq", lambda: "nelder"]),
    ("method_kws", [lambda: {}, lambda: {"max_nfev": 50}]),
])
KEYS = list(DOMAIN)
RESULT_TOKENS = {"chi_sqr": 1.5, "hash": "tok", "params_fitted": "tokP",
                 "success": True, "xmax": 1.0, "xmin": -1.0}
SEG_WRITES = {"approach": 0, "retract": 1}


def ops_list():
    ops = []
    for k in KEYS:
        for i in range(len(DOMAIN[k])):
            ops.append(("set", k, i))
    ops.append(("set", "segment", "approach"))
    ops.append(("set", "segment", "retract"))
    ops.append(("set", "not a key", 0))
    ops += [("results",), ("reset",), ("restore", 0), ("restore", 1)]
    return ops


def build_real(state):
    """state = (tuple of value indices or ABSENT per key, results bool)"""
    from nanite.fit import FitProperties
    vals, res = state
    fp = FitProperties()
    content = {}
    for k, i in zip(KEYS, vals):
        if i != ABSENT:
            content[k] = DOMAIN[k][i]()
    if res:
        content.update(RESULT_TOKENS)
    dict.update(fp, content)
    return fp


_NORMS = {}


def _norms(k):
    if k not in _NORMS:
        _NORMS[k] = [cn.norm(b()) for b in DOMAIN[k]]
    return _NORMS[k]


def read_real(fp):
    """map the real content back to a state (None if outside the domain)"""
    vals = []
    for k in KEYS:
        if k not in fp:
            vals.append(ABSENT)
            continue
        nv = cn.norm(fp[k])
        try:
            vals.append(_norms(k).index(nv))
        except ValueError:
            return None
    extra = [k for k in fp if k not in KEYS]
    if sorted(extra) == sorted(RESULT_TOKENS):
        res = True
    elif not extra:
        res = False
    else:
        res = "partial:" + ",".join(sorted(extra))
    return (tuple(vals), res)


def snapshot(idx):
    """full consistent snapshots (settings + results) for restore()"""
    vals = [0] * len(KEYS)
    if idx == 1:
        vals[KEYS.index("weight_cp")] = 1
        vals[KEYS.index("range_x")] = 2
    d = {k: DOMAIN[k][i]() for k, i in zip(KEYS, vals)}
    d.update(RESULT_TOKENS)
    return tuple(vals), d


def ref_step(state, op):
    """reference model: returns (new state, raises?)"""
    vals, res = state
    vals = list(vals)

    def setk(k, i):
        nonlocal res
        ki = KEYS.index(k)
        old = vals[ki]
        if (k == "range_x" and old != ABSENT and old != i
                and vals[KEYS.index("optimal_fit_edelta")] == 1
                and max(DOMAIN[k][old]()) == max(DOMAIN[k][i]())):
            # documented don't-care: an edit that leaves the *upper*
            # boundary (the larger of the two values) alone is ignored
            return
        if old == ABSENT or old != i:
            if k == "model_key":
                setk("params_initial", 0)
            res = False
        vals[ki] = i

    if op[0] == "set":
        k, i = op[1], op[2]
        if k not in DOMAIN:
            return state, True
        if i in SEG_WRITES:
            i = SEG_WRITES[i]
        setk(k, i)
    elif op[0] == "results":
        vals = [0 if v == ABSENT else v for v in vals]
        res = True
    elif op[0] == "reset":
        res = False
    elif op[0] == "restore":
        vals = list(snapshot(op[1])[0])
        res = True
    return (tuple(vals), res), False


def real_step(state, op):
    from nanite.fit import FP_DEFAULT, FitKeyError
    fp = build_real(state)
    raised = False
    try:
        if op[0] == "set":
            k, i = op[1], op[2]
            if k in DOMAIN and not isinstance(i, str):
                v = DOMAIN[k][i]()
            else:
                v = i
            fp[k] = v
        elif op[0] == "results":
            # what Indentation.fit_model does with the fitter's dictionary
            full = {}
            for k in KEYS:
                full[k] = fp[k] if k in fp else DOMAIN[k][0]()
            full.update(RESULT_TOKENS)
            fp.update(full)
        elif op[0] == "reset":
            fp.reset()
        elif op[0] == "restore":
            fp.restore(snapshot(op[1])[1])
    except FitKeyError:
        raised = True
    assert set(FP_DEFAULT) == set(KEYS), "harness: FP_DEFAULT keys changed"
    return read_real(fp), raised


def check_transition(state, op):
    got, graised = real_step(state, op)
    want, wraised = ref_step(state, op)
    case = {"kind": "store", "state": [list(state[0]), state[1]],
            "op": list(op)}
    site = "FitProperties." + ("__setitem__" if op[0] == "set" else op[0])
    wit = f"{op}"
    out = []
    if got is None:
        out.append(V(PROP, "settings-drift", site=site, witness=wit,
                     detail="a stored value left the written domain",
                     case=case, kind="store"))
        return out, want
    if graised != wraised:
        out.append(V(PROP, "store-raises", site=site, witness=wit,
                     detail=f"raised={graised}, reference={wraised}",
                     case=case, kind="store"))
    if got[0] != want[0]:
        diff = [(k, a, b) for k, a, b in zip(KEYS, got[0], want[0]) if a != b]
        out.append(V(PROP, "settings-drift", site=site, witness=wit,
                     detail=f"stored settings differ from what was written "
                     f"(key, real, reference): {diff}", case=case,
                     kind="store"))
    if got[1] != want[1]:
        if got[1] is True and want[1] is False:
            clause, d = "stale-result", "results survive a changed setting"
        elif got[1] is False:
            clause, d = "refit-on-unchanged", \
                "results dropped although no stored value changed"
        else:
            clause, d = "stale-result", f"partial results left: {got[1]}"
        out.append(V(PROP, clause, site=site, witness=wit, detail=d,
                     case=case, kind="store"))
    return out, want


def replay_case(case):
    st = (tuple(case["state"][0]), case["state"][1])
    op = tuple(case["op"])
    return check_transition(st, op)[0]


def _expand_states(states):
    ops = ops_list()
    vs_all, succ, classes, n = [], set(), collections.Counter(), 0
    for st in states:
        for op in ops:
            vs, nxt = check_transition(st, op)
            n += 1
            if vs:
                vs_all += vs
                continue   # follow the reference only where they agree
            classes[(op[0], nxt[1], nxt == st)] += 1
            succ.add(nxt)
    return vs_all, succ, classes, n


def deviations(state, base):
    return sum(1 for a, b in zip(state[0], base) if a != b)


def run_store(rep, tier):
    t0 = time.time()
    ops = ops_list()
    info = {}
    # start 1: as in the fitter, every key present at its default; start 2:
    # as on a new curve, the empty dictionary.
    starts = {
        "all-defaults": ((0,) * len(KEYS), False),
        "empty": ((ABSENT,) * len(KEYS), False),
    }
    bound = {"quick": {"all-defaults": 3, "empty": 2},
             "thorough": {"all-defaults": None, "empty": 4}}[tier]
    total_states = 0
    total_trans = 0
    for sname, s0 in starts.items():
        d = bound[sname]
        seen = {s0}
        frontier = [s0]
        ntr = 0
        classes = collections.Counter()
        while frontier:
            jobs = chunks(frontier, max(50, len(frontier) // 64))
            frontier = []
            for vs, succ, cl, n in pmap(_expand_states, jobs,
                                        inline_below=4):
                ntr += n
                rep.extend(vs)
                classes.update(cl)
                for nxt in succ:
                    if nxt not in seen and (d is None or
                                            deviations(nxt, s0[0]) <= d):
                        seen.add(nxt)
                        frontier.append(nxt)
        info[sname] = {"states": len(seen), "transitions": ntr,
                       "deviation_bound": d, "closed": True,
                       "outcome_classes": len(classes)}
        total_states += len(seen)
        total_trans += ntr
    rep.add("states", total_states)
    rep.add("transitions", total_trans)
    rep.add("traces_validated_against_impl", total_trans)
    info["wall_s"] = round(time.time() - t0, 1)
    info["ops"] = len(ops)
    rep.cov.setdefault("drivers", {})["store(FitProperties)"] = info
    rep.sample({"layer": "A", "state": "all defaults + results",
                "op": ["set", "gcf_k", 0.5],
                "expected": "results dropped, gcf_k stored"})
