"""C03 - fit results depend only on data and current settings, not history.

Layer A (STORE): the real FitProperties dictionary, to closure, against a
dict + ghost "dirty" bit.  Layer B (HIST): whole curve, depth-bounded BFS
with a differential from-scratch oracle per new state and an optimisation
counter per transition.
"""
import copy

import numpy as np

from .. import canon as cn
from .. import hist, ops, synth
from ..core import Report, V

PROP = "C03"
LEVEL = "model_checking"

P0 = ["compute_tip_position"]
P1 = ["compute_tip_position", "correct_force_offset", "correct_tip_offset"]
P2 = ["compute_tip_position", "correct_tip_offset", "correct_force_offset"]
O_FCL = {"correct_tip_offset": {"method": "fit_constant_line"}}
O_GZC = {"correct_tip_offset": {"method": "gradient_zero_crossing"}}

ops.register_param_variant("para_A", "hertz_para", E=2000.0,
                           contact_point=1e-7)
ops.register_param_variant("para_B", "hertz_para", E=2000.0,
                           contact_point=1e-7, baseline={"vary": False})
ops.register_param_variant("cone_A", "hertz_cone", E=2500.0)
# differ from para_B only by values far below 1e-8 in SI units
ops.register_param_variant("para_C", "hertz_para", E=2000.0,
                           contact_point=1e-7,
                           baseline={"vary": False, "value": 1.5e-10})
ops.register_param_variant("para_D", "hertz_para", E=2000.0,
                           contact_point=1.05e-7,
                           baseline={"vary": False})
# differ from para_A only in a limit (inactive at the optimum), or only in
# the brute-force step
ops.register_param_variant("para_E", "hertz_para",
                           E={"value": 2000.0, "max": 2e4},
                           contact_point=1e-7)
ops.register_param_variant("para_F", "hertz_para",
                           E={"value": 2000.0, "min": 10.0},
                           contact_point=1e-7)
ops.register_param_variant("para_G", "hertz_para",
                           E={"value": 2000.0, "brute_step": 7.0},
                           contact_point=1e-7)

RES_COLS = ["fit", "fit residuals", "fit range"]
PLATEAU_KEYS = ("optimal_fit_E_array", "optimal_fit_delta_array")


class World:
    def __init__(self, idnt):
        self.idnt = idnt
        self.hash_dropped_by = None
        self.last_exc = None


class CurveDriver(hist.Driver):
    prop = PROP
    # subclasses define: name, ops, fresh_idnt()

    def fresh_idnt(self):
        tr = synth.truth_params("hertz_para", E=3000.0, contact_point=2e-7,
                                baseline=1e-10)
        return synth.make_curve("hertz_para", tr, n_app=120, n_ret=120,
                                noise=2e-11, seed=1, tilt=2e-5,
                                innate_tip=False)

    def fresh(self):
        return World(self.fresh_idnt())

    def apply(self, w, op):
        had = "hash" in w.idnt.fit_properties
        obs = ops.apply_op(w.idnt, op)
        has = "hash" in w.idnt.fit_properties
        if had and not has:
            w.hash_dropped_by = op[0] + ("-raises" if not obs["ok"] else "")
        elif has:
            w.hash_dropped_by = None
        w.last_exc = obs["exc"]
        return obs

    def canon(self, w):
        return cn.indent_canon(w.idnt)

    def pre_info(self, w, op):
        idnt = w.idnt
        return {"canon": cn.indent_canon(idnt),
                "visible": _visible(idnt),
                "has_hash": "hash" in idnt.fit_properties,
                "settings": ops.settings_of(idnt),
                "results": ops.results_of(idnt),
                "preproc": (cn.norm(idnt.preprocessing),
                            cn.norm(idnt.preprocessing_options)),
                }

    # ---------------------------------------------------- transition oracle
    def check_transition(self, pre, op, obs, w, hops):
        out = []
        idnt = w.idnt
        case = self.case(hops)
        post_has = "hash" in idnt.fit_properties
        post_settings = ops.settings_of(idnt)

        def viol(clause, detail, site=None):
            out.append(V(PROP, clause, site=site or op[0],
                         witness=_opsig(op), detail=detail, case=case,
                         kind="hist"))
        if op[0] == "F" and pre["has_hash"]:
            kw = op[1]
            same = True
            for k, v in kw.items():
                val = cn.norm(ops.materialize(v))
                if k == "segment":
                    val = cn.norm({"approach": 0, "retract": 1}.get(v, v))
                if k not in pre["settings"] or pre["settings"][k] != val:
                    same = False
            if same:
                if obs["minimize"] != 0:
                    viol("refit-on-unchanged",
                         f"{obs['minimize']} optimisations although every "
                         "keyword equals the stored value")
                if _visible(idnt) != pre["visible"]:
                    viol("refit-on-unchanged",
                         "state changed by a fit with unchanged settings: "
                         + _diff_fields(pre, idnt))
        if pre["has_hash"] and post_has and not obs.get("minimize") and \
                idnt.fit_properties["hash"] == _unnorm_hash(pre):
            # results kept (same hash, no new optimisation) => every
            # setting's value must be unchanged
            if post_settings != pre["settings"]:
                ch = [k for k in set(post_settings) | set(pre["settings"])
                      if post_settings.get(k) != pre["settings"].get(k)]
                viol("results-kept-across-setting-change",
                     f"hash unchanged but settings {sorted(ch)} changed")
        if op[0] == "F" and obs["ok"] and not post_has:
            viol("fit-without-result", "fit_model returned without results")
        if op[0] == "F" and obs["ok"]:
            # "fits with changing keyword arguments": what was handed to a
            # fit that went through is what is stored afterwards
            for k, v in op[1].items():
                val = cn.norm(ops.materialize(v))
                if k == "segment":
                    val = cn.norm({"approach": 0, "retract": 1}.get(v, v))
                if k == "range_x" and idnt.fit_properties.get(
                        "optimal_fit_edelta") and "range_x" in \
                        pre["settings"] and max(
                            idnt.fit_properties["range_x"]) == max(v):
                    continue    # documented: lower bound ignored
                if k == "params_initial" and v is None:
                    continue    # None = "estimate them"
                if post_settings.get(k) != val:
                    viol("keyword-not-stored", f"fit_model({k}=...) went "
                         f"through, but the stored {k} is "
                         f"{_show(idnt.fit_properties.get(k))}, not the "
                         "value that was passed")
        if op[0] in ("R", "M") and post_settings != pre["settings"]:
            viol("settings-drift", f"{op[0]} changed stored settings")
        return out

    # --------------------------------------------------------- state oracle
    def check_state(self, w, hops):
        from nanite.fit import FP_DEFAULT, FP_RESULTS
        idnt = w.idnt
        fp = idnt.fit_properties
        case = self.case(hops)
        out = []
        site = "state"

        def viol(clause, detail, witness="", site=site):
            out.append(V(PROP, clause, site=site, witness=witness,
                         detail=detail, case=case, kind="hist"))
        o = self.fresh_idnt()
        if "preprocessing" in fp:
            try:
                o.apply_preprocessing(
                    copy.deepcopy(fp["preprocessing"]),
                    copy.deepcopy(fp.get("preprocessing_options", {})))
            except BaseException as e:
                _reraise_fatal(e)
                viol("stored-pipeline-unapplicable",
                     f"stored pipeline {fp['preprocessing']} / "
                     f"{fp.get('preprocessing_options')} raises {e!r} on a "
                     "fresh copy", witness=type(e).__name__)
                return out
        if "hash" in fp:
            kw = {k: copy.deepcopy(fp[k]) for k in FP_DEFAULT
                  if k in fp and k not in ("preprocessing",
                                           "preprocessing_options")}
            stored = {k: cn.norm(fp[k]) for k in FP_DEFAULT if k in fp}
            try:
                o.fit_model(**kw)
            except BaseException as e:
                _reraise_fatal(e)
                viol("stale-result", f"results are shown but the same fit on "
                     f"a fresh copy raises {e!r}", witness="oracle-raises")
                return out
            ofp = o.fit_properties
            for k in FP_RESULTS:
                if k.startswith("optimal_fit") and k in fp and k not in ofp:
                    continue   # plateau scan arrays, checked below
                if (k in fp) != (k in ofp):
                    viol("stale-result", f"result key {k}: present="
                         f"{k in fp}, on fresh copy present={k in ofp}",
                         witness="presence:" + k)
                elif k in fp and cn.norm(fp[k]) != cn.norm(ofp[k]):
                    viol("stale-result", f"{k}: {_show(fp[k])} vs fresh "
                         f"{_show(ofp[k])}", witness="value:" + k)
            for c in RES_COLS:
                if c not in idnt:
                    viol("stale-result", f"column {c} missing although a "
                         "hash is stored", witness="col-missing:" + c)
                elif c not in o:
                    if not np.all(np.isnan(np.asarray(idnt[c],
                                                      dtype=float))):
                        viol("stale-result", f"column '{c}' holds numbers, "
                             "the same fit on a fresh copy leaves no such "
                             "column", witness="col-only-here:" + c)
                elif not np.array_equal(np.asarray(idnt[c]),
                                        np.asarray(o[c]), equal_nan=True):
                    viol("stale-result", f"column '{c}' differs from the "
                         f"fresh copy (max |d| = "
                         f"{_maxdiff(idnt[c], o[c])})", witness="col:" + c)
            for k in stored:
                if k in ofp and stored[k] != cn.norm(ofp[k]):
                    viol("settings-drift", f"a fit with setting {k}="
                         f"{_show(fp[k])} leaves {_show(ofp[k])} stored",
                         witness=k)
            if PLATEAU_KEYS[0] in fp and PLATEAU_KEYS[0] not in ofp:
                self._check_plateau(idnt, o, viol)
        else:
            for k in FP_RESULTS:
                if k in fp and k not in PLATEAU_KEYS:
                    viol("result-without-hash", f"result key {k} is shown "
                         "without a current fit", witness=k)
            if any(c in idnt for c in RES_COLS):
                viol("columns-present-without-hash",
                     "fit/residual/range columns of a superseded fit remain "
                     f"readable (hash dropped by {w.hash_dropped_by})",
                     witness=f"dropped-by:{w.hash_dropped_by}")
            if PLATEAU_KEYS[0] in fp:
                for k in sorted(FP_DEFAULT):
                    if k in fp and k not in ("preprocessing",
                                             "preprocessing_options"):
                        try:
                            o.fit_properties[k] = copy.deepcopy(fp[k])
                        except BaseException as e:
                            _reraise_fatal(e)
                self._check_plateau(idnt, o, viol)
        return out

    def _check_plateau(self, idnt, o, viol):
        fp = idnt.fit_properties
        for k in PLATEAU_KEYS:
            o.fit_properties.pop(k, None)
        try:
            e, d = o.compute_emodulus_mindelta()
        except BaseException as ex:
            _reraise_fatal(ex)
            viol("stale-result", "plateau scan arrays are shown but the "
                 f"scan raises {ex!r} on a fresh copy",
                 witness="plateau-oracle-raises")
            return
        if cn.norm(np.asarray(fp[PLATEAU_KEYS[0]])) != cn.norm(e) or \
                cn.norm(np.asarray(fp[PLATEAU_KEYS[1]])) != cn.norm(d):
            viol("stale-result", "plateau scan arrays differ from a fresh "
                 "scan under the stored settings", witness="plateau-arrays")

    def state_stats(self, w):
        fp = w.idnt.fit_properties
        st = {"fitted_states": int("hash" in fp)}
        if "params_fitted" in fp and "E" in fp["params_fitted"]:
            st["distinct_E"] = float(fp["params_fitted"]["E"].value).hex()
        if "hash" in fp:
            st["hashpair"] = (fp["hash"], _effective_digest(w.idnt))
        return st


def _effective_digest(idnt):
    """digest of (data, effective settings) for C12's bijection check"""
    from nanite.fit import FP_DEFAULT
    fp = idnt.fit_properties
    eff = {}
    for k in FP_DEFAULT:
        v = fp.get(k, FP_DEFAULT[k])
        if k == "range_x" and fp.get("optimal_fit_edelta"):
            v = v[1]
        if k == "optimal_fit_num_samples" and not fp.get("optimal_fit_edelta"):
            continue
        eff[k] = v
    data = [np.asarray(idnt[fp.get("x_axis", "tip position")]),
            np.asarray(idnt[fp.get("y_axis", "force")])]
    return cn.digest([eff, data])


def _unnorm_hash(pre):
    h = pre["results"].get("hash")
    return h


def _opsig(op):
    import json
    return json.dumps(op, sort_keys=True)[:120]


def _show(v):
    import lmfit
    if isinstance(v, lmfit.Parameters):
        return {n: (v[n].value, v[n].vary) for n in v}
    if isinstance(v, np.ndarray):
        return f"array{v.shape}"
    return repr(v)


def _maxdiff(a, b):
    try:
        return float(np.nanmax(np.abs(np.asarray(a, float)
                                      - np.asarray(b, float))))
    except Exception:
        return "n/a"


def _visible(idnt):
    """what "changes nothing" is about: settings, results, columns and the
    remembered rating - not the curve's note of which pipeline was
    requested last (`Indentation.preprocessing` may lag behind after a
    rejected request and is brought up to date by the next request; the
    stored setting `fit_properties["preprocessing"]` is compared)"""
    f = cn.indent_fields(idnt)
    return {k: v for k, v in f.items()
            if k not in ("preprocessing", "preprocessing_options", "details")}


def _diff_fields(pre, idnt):
    post = ops.settings_of(idnt)
    ch = [k for k in set(post) | set(pre["settings"])
          if post.get(k) != pre["settings"].get(k)]
    r = ops.results_of(idnt)
    ch += ["result:" + k for k in set(r) | set(pre["results"])
           if r.get(k) != pre["results"].get(k)]
    return ",".join(sorted(ch)) or "columns/rating"


def _reraise_fatal(e):
    if isinstance(e, (KeyboardInterrupt, SystemExit, MemoryError)):
        raise e


# ------------------------------------------------------------- alphabets

def F(**kw):
    return ["F", kw]


BROAD_OPS = [
    ["P", P0, {}, False],
    ["P", P1, {}, False],
    ["P", P1, O_FCL, False],
    ["P", P1, {}, True],
    ["P", P1, O_FCL, True],                    # details, explicit options
    ["P", ["correct_tip_offset"], {}, False],          # missing prerequisite
    ["P", ["nope"], {}, False],                         # unknown step
    F(),
    F(weight_cp=0),
    F(weight_cp=1e-6),
    F(range_x=[-5e-7, 1e-6]),
    F(range_x=[-8e-7, 1e-6]),
    F(range_x=[0, 0]),
    F(range_type="relative cp"),
    F(range_type="absolute"),
    F(gcf_k=0.5),
    F(gcf_k=1.0),
    F(model_key="hertz_cone"),
    F(model_key="hertz_para"),
    F(segment=1),
    F(segment="approach"),
    F(optimal_fit_edelta=True, optimal_fit_num_samples=7),
    F(optimal_fit_edelta=False),
    F(params_initial={"__params__": "para_A"}),
    F(range_type="bogus"),                              # raises
    F(preprocessing=P1),
    F(preprocessing_options=O_FCL),            # options without the steps
    F(preprocessing_options={}),               # ... back to the defaults
    ["E", "weight_cp", 0],
    ["E", "gcf_k", 0.5],
    ["E", "range_x", [-5e-7, 1e-6]],
    ["M"],
    ["R", "Decision Tree", "zef18", None, None],
]


class Broad(CurveDriver):
    name = "broad"
    ops = BROAD_OPS


class Plateau(CurveDriver):
    """plateau search / range / sample-count / scan, deeper"""
    name = "plateau"
    ops = [
        ["P", P1, {}, False],
        F(),
        F(optimal_fit_edelta=True, optimal_fit_num_samples=7),
        F(optimal_fit_edelta=True, optimal_fit_num_samples=9),
        F(optimal_fit_edelta=False),
        F(range_x=[-5e-7, 1e-6]),
        F(range_x=[-8e-7, 1e-6]),
        F(range_x=[-5e-7, 5e-7]),
        F(range_x=[6e-7, 0]),                       # inverted interval
        ["E", "optimal_fit_num_samples", 9],
        ["E", "range_x", [-6e-7, 1e-6]],
        ["M"],
    ]


class GcfRel(CurveDriver):
    """geometrical correction factor x relative range x refits, deeper"""
    name = "gcf_relative"
    ops = [
        ["P", P0, {}, False],
        ["P", P1, {}, False],
        F(),
        F(gcf_k=0.5),
        F(gcf_k=1.0),
        F(range_type="relative cp", range_x=[-6e-7, 3e-7]),
        F(range_type="absolute"),
        F(range_x=[0, 0]),
        F(range_x=[-4e-9, 4e-9]),                  # too few points
        F(params_initial={"__params__": "para_A"}),
        ["E", "gcf_k", 0.5],
        ["M"],
    ]


class Failures(CurveDriver):
    """raising operations interleaved with fits and retries"""
    name = "failures"
    ops = [
        ["P", P1, {}, False],
        ["P", ["nope"], {}, False],
        ["P", P1, {"correct_tip_offset": {"method": "bogus"}}, False],
        F(),
        F(weight_cp=0),
        F(range_type="bogus"),
        F(range_x=[-4e-9, 4e-9]),                  # too few points
        F(range_x=[0, 0]),
        F(range_type="relative cp", range_x=[-1e-9, 1e-9]),
        F(model_key="no_such_model"),
        F(params_initial={"__params__": "cone_A"}),
        F(nonsense_key=1),
        F(preprocessing=["correct_force_slope"]),
        ["E", "segment", 1],
        ["E", "bad key", 1],
    ]


class FailuresInnate(CurveDriver):
    """failed requests on a curve that has an innate tip position: a fit
    is possible on raw data, so results can be compared with what the
    stored pipeline would give"""
    name = "failures_innate"
    ops = [
        ["P", P1, {}, False],
        ["P", P2, {}, False],
        ["P", ["compute_tip_position", "nope"], {}, False],
        ["P", P1, {"correct_tip_offset": {"method": "bogus"}}, False],
        ["P", ["correct_force_slope"], {}, False],
        ["P", [], {}, False],                 # back to the recorded data
        F(),
        F(weight_cp=0),
        F(preprocessing=P1),
        F(preprocessing=[]),
        F(preprocessing=["nope"]),
        F(range_type="bogus"),
    ]

    def fresh_idnt(self):
        tr = synth.truth_params("hertz_para", E=3000.0, contact_point=2e-7,
                                baseline=1e-10)
        return synth.make_curve("hertz_para", tr, n_app=120, n_ret=120,
                                noise=2e-11, seed=1, tilt=2e-5,
                                innate_tip=True)


class InitialParams(CurveDriver):
    """initial-parameter sets that differ only slightly (SI units: 1e-10 N,
    5e-9 m), refits and settings edits in between"""
    name = "initial_params"
    ops = [
        ["P", P1, {}, False],
        F(),
        F(params_initial={"__params__": "para_A"}),
        F(params_initial={"__params__": "para_B"}),
        F(params_initial={"__params__": "para_C"}),
        F(params_initial={"__params__": "para_D"}),
        F(params_initial={"__params__": "para_E"}),
        F(params_initial={"__params__": "para_F"}),
        F(params_initial={"__params__": "para_G"}),
        F(params_initial=None),
        F(model_key="hertz_cone"),
        F(model_key="hertz_para"),
        ["E", "weight_cp", 0],
    ]


PIPELINE_KEYS = ("preprocessing", "preprocessing_options")


class PipelineEdits(CurveDriver):
    """direct edits of the two settings that describe the preprocessing
    pipeline.  FitProperties has no reference to the curve, so such an edit
    cannot re-run the pipeline (known finding D28, same root as D13): from
    the edit until the next preprocessing request the data do not belong to
    the stored pipeline.  Violations of `stale-result` in that window are
    labelled (site / witness), everything else is judged as usual."""
    name = "pipeline_edits"
    ops = [
        ["P", P1, {}, False],
        ["P", P1, O_FCL, False],
        F(),
        F(weight_cp=0),
        F(preprocessing=P1),
        ["E", "preprocessing_options", O_FCL],
        ["E", "preprocessing_options", {}],
        ["E", "preprocessing", P2],
        ["E", "weight_cp", 0],
        ["M"],
    ]

    def apply(self, w, op):
        w.edited_before = getattr(w, "pipeline_edited", False)
        obs = super().apply(w, op)
        if op[0] == "E" and op[1] in PIPELINE_KEYS and obs["ok"]:
            fp = w.idnt.fit_properties
            w.pipeline_edited = (
                cn.norm(fp.get("preprocessing")),
                cn.norm(fp.get("preprocessing_options"))) != (
                cn.norm(w.idnt.preprocessing),
                cn.norm(w.idnt.preprocessing_options))
        elif op[0] == "P" or (op[0] == "F" and any(k in op[1]
                                                   for k in PIPELINE_KEYS)):
            w.pipeline_edited = False
        return obs

    def check_transition(self, pre, op, obs, w, hops):
        out = super().check_transition(pre, op, obs, w, hops)
        if getattr(w, "edited_before", False) and op[0] == "F" \
                and "preprocessing" in op[1] \
                and "preprocessing_options" not in op[1]:
            # the request takes its options from the curve's own note of
            # the last request, which the direct edit could not reach: it
            # is a request for other options than the stored (edited) ones
            for v in out:
                if v["clause"] == "refit-on-unchanged":
                    v["site"] = "F:pipeline-key-edited-directly"
                    v["witness"] = "after-E-on-pipeline-key:" + v["witness"]
        return out

    def check_state(self, w, hops):
        out = super().check_state(w, hops)
        if getattr(w, "pipeline_edited", False):
            for v in out:
                if v["clause"] == "stale-result":
                    v["site"] = "state:pipeline-key-edited-directly"
                    v["witness"] = "after-E-on-pipeline-key:" + v["witness"]
        return out


class Recorded(CurveDriver):
    """the recorded JPK curve, shallower"""
    name = "recorded"
    ops = [
        ["P", P1, {}, False],
        ["P", P1 + ["correct_split_approach_retract"], {}, False],
        F(model_key="sneddon_spher_approx"),
        F(model_key="hertz_para"),
        F(weight_cp=0),
        F(range_x=[-2e-6, 1e-6]),
        F(range_type="relative cp", range_x=[-1e-6, 5e-7]),
        F(gcf_k=0.5),
        F(segment=1),
        ["E", "weight_cp", 5e-7],
        ["M"],
    ]

    def fresh_idnt(self):
        from nanite import IndentationGroup
        return IndentationGroup(
            "/repo/tests/data/fmt-jpk-fd_spot3-0192.jpk-force")[0]


DRIVERS = {d.name: d() for d in (PipelineEdits, Broad, Plateau, GcfRel, Failures,
                                 FailuresInnate, InitialParams, Recorded)}


# ------------------------------------------------------------ layer A

from . import c03_store  # noqa: E402


def replay(doc):
    case = doc["case"]
    if case.get("kind") == "store":
        return c03_store.replay_case(case)
    return hist.replay_case(case)


def run(tier):
    rep = Report(PROP, tier, LEVEL)
    plan = {
        "quick": [("broad", 3), ("plateau", 3), ("gcf_relative", 3),
                  ("failures", 4), ("failures_innate", 3),
                  ("initial_params", 3), ("pipeline_edits", 4)],
        "thorough": [("broad", 4), ("plateau", 5), ("gcf_relative", 5),
                     ("failures", 6), ("failures_innate", 5),
                     ("initial_params", 4), ("recorded", 3),
                     ("pipeline_edits", 5)],
    }[tier]
    sc = hist.selfcheck_start(__name__, "broad", [1, 14, 12, 25])
    c03_store.run_store(rep, tier)
    allE = set()
    for name, depth in plan:
        drv = DRIVERS[name]
        seen, info = hist.search(drv, rep, depth,
                                 merge_check=(tier == "thorough"
                                              or name != "broad"))
        allE |= info["raw_stats"].get("distinct_E", set())
        if len(rep.samples) < 6:
            hs = sorted((h for h, _ in seen.values()), key=len)
            rep.sample({"driver": name,
                        "history": [drv.ops[i] for i in hs[-1]]})
    hist.selfcheck_finish(sc, rep, "broad")
    rep.set("distinct_fitted_E_values", len(allE))
    rep.set("exhaustive", True)
    rep.set("bounds", {name: depth for name, depth in plan})
    rep.assumptions += [
        "every transition calls the real nanite entry point on a real "
        "Indentation; histories are replayed from scratch (no snapshots)",
        "states are merged by a by-value hash of fit_properties, user "
        "columns, remembered pipeline, details presence and rating cache; "
        "the merge assumption is self-checked (successor vectors of two "
        "representatives must agree)",
        "layer B is depth-bounded; layer A (FitProperties alone) runs to "
        "closure",
    ]
    return rep
