"""Runner plumbing: violations, known findings, evidence, replay files, pool."""
import concurrent.futures as cf
import hashlib
import json
import multiprocessing as mp
import os
import random
import shutil
import subprocess
import sys
import time

from . import VERIF_ROOT

EVIDENCE_DIR = os.path.join(VERIF_ROOT, "evidence")
REPLAY_DIR = os.path.join(VERIF_ROOT, "replays")
KNOWN_FINDINGS = os.path.join(VERIF_ROOT, "known_findings.json")
NPROC = int(os.environ.get("VERIF_NPROC", "16"))


def seed():
    try:
        return int(os.environ.get("VERIF_SEED", "0"))
    except ValueError:
        return 0


def shuffled(items):
    """Permute work order with VERIF_SEED (never selects *what* is explored)."""
    items = list(items)
    random.Random(seed()).shuffle(items)
    return items


class Violation(dict):
    """One violated oracle clause.

    Keys: property, clause, site (call site / operation kind), witness
    (short canonical description of the failing input class), detail
    (free text), case (JSON payload that `replay` re-executes).
    """

    def signature(self):
        return (self["property"], self["clause"], self.get("site", ""))


def V(prop, clause, site="", witness="", detail="", case=None, kind=None):
    return Violation(property=prop, clause=clause, site=site,
                     witness=witness, detail=str(detail)[:2000], case=case,
                     kind=kind)


def load_known():
    if not os.path.exists(KNOWN_FINDINGS):
        return []
    with open(KNOWN_FINDINGS) as fd:
        data = json.load(fd)
    return [e for e in data.get("findings", []) if e.get("status") == "known"]


def match_known(v, known):
    """A violation is a known finding iff property, clause and site are
    equal and the entry's witness (a plain substring) occurs in the
    violation's witness."""
    for e in known:
        if (e["property"] == v["property"] and e["clause"] == v["clause"]
                and e.get("site", "") == v.get("site", "")
                and e.get("witness", "") in v.get("witness", "")):
            return e
    return None


class Report:
    """Collects coverage counters and violations for one check run."""

    def __init__(self, prop, tier, level):
        self.prop = prop
        self.tier = tier
        self.level = level
        self.t0 = time.time()
        self.violations = []
        self.cov = {}
        self.assumptions = []
        self.samples = []
        self.harness_errors = []

    # -- coverage helpers
    def add(self, key, n=1):
        self.cov[key] = self.cov.get(key, 0) + n

    def set(self, key, val):
        self.cov[key] = val

    def sample(self, s, limit=6):
        if len(self.samples) < limit:
            self.samples.append(s)

    def violate(self, v):
        self.violations.append(v)

    def extend(self, vs):
        self.violations.extend(vs)

    def harness(self, msg):
        self.harness_errors.append(msg)

    # -- finishing
    def finish(self):
        known = load_known()
        wall = time.time() - self.t0
        new, old = [], {}
        for v in self.violations:
            e = match_known(v, known)
            if e is None:
                new.append(v)
            else:
                old.setdefault(e["id"], [e, 0])[1] += 1
        # group new violations by signature, report the first (shortest) each
        groups = {}
        for v in new:
            groups.setdefault(v.signature(), []).append(v)
        lines = []
        shutil.rmtree(os.path.join(REPLAY_DIR, self.prop),
                      ignore_errors=True)
        confirmed, disconfirmed = 0, 0
        for sig, vs in groups.items():
            vs.sort(key=lambda v: len(json.dumps(v.get("case"),
                                                 default=_json_default)))
            # every counterexample is re-executed in a fresh interpreter
            # before it is reported (guards against contamination by
            # process-global state and other nondeterminism)
            chosen, path, verdict = vs[0], None, None
            tried = set()
            for v in vs:
                key = json.dumps(v.get("case"), sort_keys=True,
                                 default=_json_default)
                if key in tried:
                    continue
                tried.add(key)
                path = write_replay(v)
                verdict = confirm_replay(self.prop, path, v)
                chosen = v
                if verdict is not False or len(tried) >= 4:
                    break
            v = chosen
            if verdict is False:
                disconfirmed += 1
                self.harness_errors.append(
                    f"HARNESS-UNCONFIRMED: clause={v['clause']} site="
                    f"{v.get('site', '')} ({len(vs)} reports) did not "
                    "reproduce in a fresh interpreter; not reported as a "
                    "violation")
                continue
            confirmed += 1
            lines.append(f"VIOLATION property={self.prop} replay={path}")
            print(f"  clause={v['clause']} site={v.get('site', '')} "
                  f"count={len(vs)} witness={v.get('witness', '')}")
            print(f"  detail: {v.get('detail', '')[:600]}")
        for fid, (e, n) in sorted(old.items()):
            print(f"KNOWN-FINDING: property={self.prop} {e['id']} "
                  f"{e['summary']} (seen {n}x)")
        cov = dict(self.cov)
        cov["samples"] = self.samples or ["<none>"]
        cov["known_findings_seen"] = {k: n for k, (e, n) in old.items()}
        cov["violation_signatures"] = [list(s) for s in groups]
        ev = {
            "property_id": self.prop,
            "tier": self.tier,
            "seed": seed(),
            "level": self.level,
            "coverage": cov,
            "assumptions": self.assumptions,
            "wall_s": round(wall, 2),
            "violations": len(lines),
        }
        os.makedirs(EVIDENCE_DIR, exist_ok=True)
        evpath = os.path.join(EVIDENCE_DIR, f"{self.prop}.json")
        tmp = evpath + f".{os.getpid()}.tmp"
        with open(tmp, "w") as fd:
            json.dump(ev, fd, indent=1, default=_json_default)
        os.replace(tmp, evpath)
        ok_schema = validate_evidence(evpath)
        summ = {k: v for k, v in cov.items()
                if isinstance(v, (int, float, bool))}
        print(f"[{self.prop}] tier={self.tier} wall={wall:.1f}s {summ}")
        for ln in lines:
            print(ln)
        for h in self.harness_errors[:10]:
            print("HARNESS-ERROR:", h)
        if lines:
            # at least one violation reproduced independently
            return 1
        if self.harness_errors:
            return 2
        if not ok_schema:
            print("HARNESS-ERROR: evidence file does not validate")
            return 2
        return 0


def _json_default(o):
    try:
        import numpy as np
        if isinstance(o, np.generic):
            return o.item()
        if isinstance(o, np.ndarray):
            return o.tolist()
    except ImportError:
        pass
    return repr(o)


NO_REPLAY_KINDS = ("bijection", "proc", "plugin")


def confirm_replay(prop, path, v):
    """True: reproduced in a fresh interpreter; False: it ran and did not
    reproduce; None: could not be decided (treated as reported)."""
    if v.get("kind") in NO_REPLAY_KINDS or \
            os.environ.get("VERIF_NO_CONFIRM"):
        return None
    try:
        r = subprocess.run([sys.executable, "-m", "mc.run", prop,
                            "--replay", path], cwd=VERIF_ROOT,
                           capture_output=True, text=True, timeout=900)
    except (OSError, subprocess.TimeoutExpired):
        return None
    if r.returncode == 1 and "REPLAY-VIOLATION" in r.stdout:
        return True
    if r.returncode == 0 and "REPLAY-OK" in r.stdout:
        return False
    return None


def write_replay(v):
    os.makedirs(os.path.join(REPLAY_DIR, v["property"]), exist_ok=True)
    body = json.dumps({k: v.get(k) for k in
                       ("property", "clause", "site", "witness", "detail",
                        "kind", "case")},
                      indent=1, sort_keys=True, default=_json_default)
    sha = hashlib.sha1(body.encode()).hexdigest()[:12]
    path = os.path.join(REPLAY_DIR, v["property"], f"{sha}.json")
    with open(path, "w") as fd:
        fd.write(body)
    return path


_VALIDATOR = r"""
import json, sys, jsonschema
schema = json.load(open(sys.argv[1])); doc = json.load(open(sys.argv[2]))
jsonschema.validate(doc, schema)
"""


def validate_evidence(path):
    schema = os.path.join(VERIF_ROOT, "schemas", "EVIDENCE.schema.json")
    try:
        r = subprocess.run(["python3-vt", "-c", _VALIDATOR, schema, path],
                           capture_output=True, text=True, timeout=60)
    except (OSError, subprocess.TimeoutExpired) as e:
        print("note: schema validation skipped:", e)
        return _light_validate(path)
    if r.returncode != 0:
        print(r.stderr[-1500:])
        return False
    return True


def _light_validate(path):
    ev = json.load(open(path))
    cov = ev["coverage"]
    if ev["level"] == "model_checking":
        return (cov.get("states", 0) >= 1 and cov.get("transitions", 0) >= 1
                and len(cov.get("samples", [])) >= 1)
    return (cov.get("evaluations", 0) >= 1
            and cov.get("distinct_nontrivial", 0) >= 2
            and len(cov.get("samples", [])) >= 1)


# ---------------------------------------------------------------- pool

def _worker_init():
    import warnings
    warnings.simplefilter("ignore")
    import mc  # noqa: F401  (pins the tree, thread counts)
    from . import state
    state.snapshot()    # the library's global state while it is pristine


_POOL = None


def pool():
    """Process pool with *spawned* workers (never forked, see DESIGN 1.1)."""
    global _POOL
    if _POOL is None:
        ctx = mp.get_context("spawn")
        _POOL = cf.ProcessPoolExecutor(max_workers=NPROC, mp_context=ctx,
                                       initializer=_worker_init)
    return _POOL


def shutdown_pool():
    global _POOL
    if _POOL is not None:
        _POOL.shutdown(wait=True, cancel_futures=True)
        _POOL = None


def pmap(func, items, chunksize=1, inline_below=0):
    """Unordered parallel map; results are returned in input order."""
    items = list(items)
    if len(items) <= inline_below or NPROC <= 1:
        return [func(i) for i in items]
    return list(pool().map(func, items, chunksize=chunksize))


def chunks(seq, n):
    seq = list(seq)
    return [seq[i:i + n] for i in range(0, len(seq), n)]


def main_wrapper(run):
    """Entry point used by every property module."""
    try:
        code = run()
    finally:
        shutdown_pool()
    sys.stdout.flush()
    return code
