"""./check <ID> [--tier quick|thorough] [--replay file]"""
import argparse
import importlib
import json
import os
import sys
import traceback

import mc
from mc import core


def main():
    ap = argparse.ArgumentParser()
    ap.add_argument("prop")
    ap.add_argument("--tier", default=os.environ.get("VERIF_TIER", "quick"),
                    choices=["quick", "thorough"])
    ap.add_argument("--replay", default=None)
    args = ap.parse_args()
    mc.assert_tree()
    from mc import state
    state.snapshot()    # the library's global state while it is pristine
    mod = importlib.import_module(f"mc.props.{args.prop.lower()}")
    if args.replay:
        doc = json.load(open(args.replay))
        vs = mod.replay(doc)
        for v in vs:
            print(f"REPLAY-VIOLATION property={v['property']} "
                  f"clause={v['clause']} site={v.get('site', '')} "
                  f"witness={v.get('witness', '')}\n  {v.get('detail', '')}")
        if not vs:
            print("REPLAY-OK: the recorded case no longer violates")
        return 1 if vs else 0
    try:
        rep = mod.run(args.tier)
        return rep.finish()
    except SystemExit:
        raise
    except BaseException:
        traceback.print_exc()
        print("HARNESS-ERROR: check crashed (not a verdict)")
        return 2
    finally:
        core.shutdown_pool()


if __name__ == "__main__":
    code = main()
    sys.stdout.flush()
    sys.exit(code or 0)
