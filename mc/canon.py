"""Canonical forms: everything is compared *by value* (DESIGN 1.1)."""
import hashlib
import numbers

import numpy as np


def norm(x):
    """Normalise a python/numpy value so that equal values coincide
    (numpy.float64(0.0), 0.0 and 0 are the same value)."""
    import lmfit
    if x is None:
        return None
    if isinstance(x, (bool, np.bool_)):
        return ("b", bool(x))
    if isinstance(x, numbers.Real):
        return ("f", float(x).hex())
    if isinstance(x, str):
        return x
    if isinstance(x, np.ndarray):
        return ("a", str(x.dtype), x.shape,
                hashlib.sha1(np.ascontiguousarray(x).tobytes()).hexdigest())
    if isinstance(x, (list, tuple)):
        return ("l",) + tuple(norm(i) for i in x)
    if isinstance(x, dict):
        return ("d",) + tuple(sorted((str(k), norm(v)) for k, v in x.items()))
    if isinstance(x, lmfit.Parameters):
        return ("P",) + tuple((n, norm_param(x[n])) for n in x)
    if isinstance(x, lmfit.Parameter):
        return norm_param(x)
    return ("r", repr(x))


def norm_param(p):
    return ("p", p.name, norm(p.value), norm(p.min), norm(p.max),
            bool(p.vary), p.expr, norm(getattr(p, "brute_step", None)))


def digest(x):
    return hashlib.sha1(repr(norm(x)).encode()).hexdigest()


def params_table(P):
    """JSON-able dump of lmfit.Parameters"""
    return {n: {"value": float(P[n].value), "min": float(P[n].min),
                "max": float(P[n].max), "vary": bool(P[n].vary),
                "expr": P[n].expr} for n in P}


def build_params(table, model_key=None):
    """lmfit.Parameters from a JSON-able table (fresh object each call)."""
    import lmfit
    P = lmfit.Parameters()
    for n, a in table.items():
        P.add(n, value=a["value"], min=a.get("min", -np.inf),
              max=a.get("max", np.inf), vary=a.get("vary", True),
              expr=a.get("expr"))
    return P


def indent_fields(idnt, with_rating=True):
    """Property-relevant fields of an Indentation, as a dict of digests.

    These are all attributes nanite/afmformats read on later calls: the
    fit-properties dictionary, every user column, the remembered
    pipeline, presence of preprocessing details, the rating cache.
    """
    fp = idnt.fit_properties
    out = {}
    for k in sorted(fp):
        out["fp:" + k] = digest(fp[k])
    for c in sorted(idnt._data):
        out["col:" + c] = digest(np.asarray(idnt._data[c]))
    out["preprocessing"] = digest(idnt.preprocessing)
    out["preprocessing_options"] = digest(idnt.preprocessing_options)
    det = idnt._preprocessing_details
    out["details"] = digest(sorted(det.keys()) if det else None)
    if with_rating:
        out["rating"] = digest(list(idnt._rating) if idnt._rating is not None
                               else None)
    return out


def indent_canon(idnt, with_rating=True):
    f = indent_fields(idnt, with_rating=with_rating)
    return hashlib.sha1(repr(sorted(f.items())).encode()).hexdigest()


def raw_digest(idnt):
    return digest({k: np.asarray(idnt._raw_data[k]) for k in idnt._raw_data})
