"""Operation vocabulary on an Indentation, shared by the history drivers.

Op descriptors are JSON-able lists:
  ["P", steps, options, ret_details]     apply_preprocessing
  ["F", kwargs]                          fit_model(**kwargs)
  ["E", key, value]                      fit_properties[key] = value
  ["R", regressor, training_set, names, lda]   rate_quality
  ["M"]                                  compute_emodulus_mindelta
Values of the form {"__params__": name} are replaced by a freshly built
lmfit.Parameters object on every call (arguments are never shared between
calls unless a driver makes aliasing its explicit subject).
"""
import copy
import sys

import numpy as np

from . import canon as cn


class Counters:
    """Counts optimisations started by nanite.fit (not by POC estimators)."""
    minimize = 0
    get_rater = 0
    installed = False
    passes = None   # optional list collecting per-pass records


def install_counters():
    if Counters.installed:
        return
    import lmfit
    import nanite.fit
    import nanite.indent
    orig = lmfit.minimize

    def counting_minimize(*args, **kwargs):
        fr = sys._getframe(1)
        if fr.f_globals.get("__name__") == "nanite.fit":
            Counters.minimize += 1
            if Counters.passes is not None:
                params = kwargs.get("params")
                a = kwargs.get("args")
                Counters.passes.append({
                    "cp0": float(params["contact_point"].value)
                    if params is not None and "contact_point" in params
                    else None,
                    "x": np.array(a[0], copy=True) if a else None,
                    "y": np.array(a[1], copy=True) if a else None,
                    "params_in": cn.params_table(params)
                    if params is not None else None,
                })
            res = orig(*args, **kwargs)
            if Counters.passes is not None:
                Counters.passes[-1]["cp_out"] = float(
                    res.params["contact_point"].value) \
                    if "contact_point" in res.params else None
            return res
        return orig(*args, **kwargs)
    lmfit.minimize = counting_minimize
    orig_gr = nanite.indent.get_rater

    def counting_get_rater(*args, **kwargs):
        Counters.get_rater += 1
        return orig_gr(*args, **kwargs)
    nanite.indent.get_rater = counting_get_rater
    Counters.installed = True


PARAM_VARIANTS = {}


def param_variant(name):
    """Fresh lmfit.Parameters for a named variant."""
    return PARAM_VARIANTS[name]()


def _model_defaults(model_key, **values):
    from nanite import model as nmodel
    P = nmodel.models_available[model_key].get_parameter_defaults()
    for k, v in values.items():
        if isinstance(v, dict):
            P[k].set(**v)
        else:
            P[k].set(value=v)
    return P


def register_param_variant(name, model_key, **values):
    PARAM_VARIANTS[name] = lambda: _model_defaults(model_key, **values)


def materialize(x):
    """deep copy of a JSON value with parameter placeholders expanded"""
    if isinstance(x, dict):
        if set(x) == {"__params__"}:
            return param_variant(x["__params__"])
        return {k: materialize(v) for k, v in x.items()}
    if isinstance(x, list):
        return [materialize(v) for v in x]
    return copy.deepcopy(x)


def short_exc(e):
    return type(e).__name__


def apply_op(idnt, op):
    """Execute one op on the real object. Returns a JSON-able observation:
    {"ok": bool, "exc": name or None, "minimize": n, "ret": summary}"""
    install_counters()
    m0 = Counters.minimize
    g0 = Counters.get_rater
    kind = op[0]
    ret = None
    exc = None
    try:
        if kind == "P":
            ret_details = bool(op[3]) if len(op) > 3 else False
            d = idnt.apply_preprocessing(materialize(op[1]),
                                         materialize(op[2]),
                                         ret_details=ret_details)
            ret = sorted(d.keys()) if d else None
        elif kind == "F":
            idnt.fit_model(**materialize(op[1]))
        elif kind == "E":
            idnt.fit_properties[op[1]] = materialize(op[2])
        elif kind == "R":
            r = idnt.rate_quality(regressor=op[1], training_set=op[2],
                                  names=materialize(op[3]), lda=op[4])
            ret = float(r)
        elif kind == "M":
            e, d = idnt.compute_emodulus_mindelta()
            ret = [len(e), len(d)]
        else:
            raise RuntimeError(f"harness: unknown op {op}")
    except RuntimeError:
        raise
    except BaseException as e:   # nanite's own errors derive BaseException
        if isinstance(e, (KeyboardInterrupt, SystemExit, MemoryError)):
            raise
        exc = short_exc(e)
    return {"ok": exc is None, "exc": exc,
            "minimize": Counters.minimize - m0,
            "trainings": Counters.get_rater - g0, "ret": ret}


def settings_of(idnt):
    """by-value digest of every stored FP_DEFAULT setting"""
    from nanite.fit import FP_DEFAULT
    fp = idnt.fit_properties
    return {k: cn.norm(fp[k]) for k in FP_DEFAULT if k in fp}


def results_of(idnt):
    from nanite.fit import FP_DEFAULT
    fp = idnt.fit_properties
    return {k: cn.norm(fp[k]) for k in fp if k not in FP_DEFAULT}
