"""HIST - explicit-state breadth-first search over operation histories.

A state is identified with a history that reaches it (live objects are
never copied; every expansion replays the history on a fresh real object).
States are deduplicated by a canonical hash of the property-relevant
fields.  The search is exhaustive over the alphabet up to the depth bound
(or to closure, when the canonical state set is finite).
"""
import hashlib
import importlib
import json
import os
import subprocess
import sys
import time

from .core import pmap, shuffled, V


class Driver:
    """Base class; subclasses live in mc.props.* and are looked up by
    (module, name) in worker processes."""
    name = "driver"
    prop = "C00"
    ops = []

    def fresh(self):
        raise NotImplementedError

    def apply(self, world, op):
        raise NotImplementedError

    def canon(self, world):
        raise NotImplementedError

    def pre_info(self, world, op):
        return None

    def check_transition(self, pre, op, obs, world, hist_ops):
        return []

    def check_state(self, world, hist_ops):
        return []

    def state_stats(self, world):
        return {}

    def enabled(self, hist_idx):
        """indices of ops to try after hist (default: all)"""
        return range(len(self.ops))

    def reset_globals(self):
        """every history starts from the library's global state of a fresh
        interpreter (registries, memos, caches, mutable defaults)"""
        from . import state
        state.restore()

    def case(self, hist_ops):
        return {"module": self.__class__.__module__, "driver": self.name,
                "hist": hist_ops}


def get_driver(module, name):
    mod = importlib.import_module(module)
    return mod.DRIVERS[name]


def build(drv, hist_idx):
    drv.reset_globals()
    world = drv.fresh()
    obs = []
    for i in hist_idx:
        obs.append(drv.apply(world, drv.ops[i]))
    return world, obs


def full_canon(drv, world):
    """canonical state = the driver's by-value view of the object(s) plus
    whatever differs from a fresh interpreter in the library's module-level
    state (memos, registries, mutable defaults): two histories may only be
    merged if both coincide"""
    from . import state
    c = drv.canon(world)
    fp = state.fingerprint()
    if fp:
        import hashlib
        c = hashlib.sha256(((c if isinstance(c, str) else repr(c))
                            + "#" + fp).encode()).hexdigest()
    return c


def _expand(args):
    module, name, hist = args
    drv = get_driver(module, name)
    out = []
    for i in drv.enabled(hist):
        world, _ = build(drv, hist)
        op = drv.ops[i]
        pre_canon = full_canon(drv, world)
        pre = drv.pre_info(world, op)
        obs = drv.apply(world, op)
        c = full_canon(drv, world)
        hops = [drv.ops[j] for j in hist] + [op]
        tv = drv.check_transition(pre, op, obs, world, hops)
        out.append((i, pre_canon, c, obs, tv))
    return hist, out


def _check_states(args):
    module, name, hists = args
    drv = get_driver(module, name)
    res = []
    for hist in hists:
        world, _ = build(drv, hist)
        hops = [drv.ops[j] for j in hist]
        vs = drv.check_state(world, hops)
        try:
            st = drv.state_stats(world)
        except BaseException as e:   # statistics only, never a verdict
            if isinstance(e, (KeyboardInterrupt, SystemExit, MemoryError)):
                raise
            st = {"state_stats_failed": 1}
        res.append((hist, vs, st))
    return res


def search(drv, rep, depth, budget_s=None, merge_check=True, label=None):
    """BFS to `depth` (None = to closure).  Adds counters to `rep`."""
    module = drv.__class__.__module__
    label = label or drv.name
    t0 = time.time()
    budget_s = budget_s or float(os.environ.get("VERIF_BUDGET_S", "3000"))
    # root
    w0, _ = build(drv, [])
    c0 = full_canon(drv, w0)
    seen = {c0: [[], None]}        # canon -> [first hist, alt hist]
    rep.extend(drv.check_state(w0, []))
    frontier = [c0]
    n_trans = 0
    n_hist = 1
    level = 0
    per_level = []
    obs_classes = {}
    obs_stats = {}
    stats = {}
    closed = False
    cap = None
    succ_of = {}
    late_alts = []
    succ_digest = {}
    while frontier:
        if depth is not None and level >= depth:
            break
        if time.time() - t0 > budget_s:
            cap = f"time budget {budget_s}s hit before level {level + 1}"
            break
        level += 1
        jobs = []
        for c in frontier:
            h, alt = seen[c]
            jobs.append((module, drv.name, h))
            if merge_check and alt is not None:
                jobs.append((module, drv.name, alt))
        # second histories found for states that were expanded earlier
        # (self-loops, returns to an old state) are expanded one level late
        for c in late_alts:
            jobs.append((module, drv.name, seen[c][1]))
        late_alts = []
        jobs = shuffled(jobs)
        results = pmap(_expand, jobs, chunksize=max(1, len(jobs) // 256),
                       inline_below=2)
        results.sort(key=lambda r: (len(r[0]), r[0]))
        new = []
        alt_vecs = []
        new_set = set()
        for hist, outs in results:
            n_hist += len(outs)
            vec = []
            alt_run = False
            for i, pre_c, c, obs, tv in outs:
                vec.append((i, c))
                hc = hist + [i]
                if pre_c not in seen:
                    rep.harness(f"HARNESS-NONDETERMINISM[{label}]: history "
                                f"{hist} gave canon {pre_c[:8]} in a worker "
                                "but another canon before")
                    continue
                is_alt = seen[pre_c][1] == hist and seen[pre_c][0] != hist
                # a second history into a state is a history like any
                # other: its violations count, its transitions are not
                # counted twice
                rep.extend(tv)
                if is_alt:
                    alt_run = True
                    continue
                n_trans += 1
                if isinstance(obs, dict) and "_stats" in obs:
                    for sk, sv in obs["_stats"].items():
                        obs_stats[sk] = obs_stats.get(sk, 0) + sv
                key = (json.dumps(drv.ops[i], sort_keys=True)[:60],
                       json.dumps(obs, sort_keys=True, default=repr)[:80])
                obs_classes[key] = obs_classes.get(key, 0) + 1
                if c not in seen:
                    seen[c] = [hc, None]
                    new.append(c)
                    new_set.add(c)
                elif seen[c][1] is None and seen[c][0] != hc \
                        and len(hc) <= level:
                    seen[c][1] = hc
                    if merge_check == "full" and c not in new_set \
                            and (depth is None or level < depth):
                        late_alts.append(c)
            pre_c = outs[0][1] if outs else None
            if pre_c is not None and merge_check:
                dg = hashlib.sha1(json.dumps(vec).encode()).hexdigest()
                if alt_run:
                    alt_vecs.append((pre_c, hist, dg))
                else:
                    succ_digest[pre_c] = (hist, dg)
        for pre_c, hist, dg in alt_vecs:
            if pre_c in succ_digest and succ_digest[pre_c][1] != dg:
                rep.harness(
                    f"HARNESS-ABSTRACTION[{label}]: histories "
                    f"{succ_digest[pre_c][0]} and {hist} share canon "
                    f"{pre_c[:8]} but their successors differ")
        # state oracle once per new state
        sjobs = [(module, drv.name, [seen[c][0] for c in chunk])
                 for chunk in _chunks(shuffled(new), 4)]
        for res in pmap(_check_states, sjobs, inline_below=1):
            for hist, vs, st in res:
                n_hist += 1
                rep.extend(vs)
                for k, v in st.items():
                    if isinstance(v, (int, float)):
                        stats[k] = stats.get(k, 0) + v
                    else:
                        stats.setdefault(k, set()).add(v)
        per_level.append({"level": level, "new_states": len(new),
                          "states_total": len(seen),
                          "transitions_total": n_trans,
                          "t": round(time.time() - t0, 1)})
        frontier = new
        if not new:
            closed = True
    rep.add("states", len(seen))
    rep.add("transitions", n_trans)
    rep.add("traces_validated_against_impl", n_hist)
    info = {"ops": len(drv.ops), "depth_completed": level,
            "closed": closed, "cap_hit": cap, "levels": per_level,
            "distinct_observation_classes": len(obs_classes),
            "obs_stats": obs_stats,
            "stats": {k: (len(v) if isinstance(v, set) else v)
                      for k, v in stats.items()}}
    rep.cov.setdefault("drivers", {})[label] = dict(info)
    if cap:
        rep.cov["cap_hit"] = cap
    info["raw_stats"] = stats
    return seen, info


def _chunks(seq, n):
    return [seq[i:i + n] for i in range(0, len(seq), n)]


def replay_case(case):
    """Re-execute one recorded history without the explorer."""
    drv = get_driver(case["module"], case["driver"])
    drv.reset_globals()
    world = drv.fresh()
    out = []
    hops = []
    n = len(case["hist"])
    for k, op in enumerate(case["hist"]):
        pre = drv.pre_info(world, op)
        obs = drv.apply(world, op)
        hops.append(op)
        if k == n - 1:
            out += drv.check_transition(pre, op, obs, world, hops)
    out += drv.check_state(world, hops)
    return out


# ------------------------------------------------ determinism self-check

def selfcheck_start(module, name, hist_idx):
    """Run one fixed history in two fresh interpreters with different hash
    seeds; the canonical state and observations must coincide."""
    procs = []
    for hs in ("1", "4242"):
        env = dict(os.environ, PYTHONHASHSEED=hs)
        procs.append(subprocess.Popen(
            [sys.executable, "-m", "mc.hist", module, name,
             json.dumps(hist_idx)], env=env, stdout=subprocess.PIPE,
            stderr=subprocess.PIPE, text=True,
            cwd=os.path.dirname(os.path.dirname(os.path.abspath(__file__)))))
    return procs


def selfcheck_finish(procs, rep, label):
    outs = []
    for p in procs:
        o, e = p.communicate(timeout=600)
        if p.returncode != 0:
            rep.harness(f"HARNESS-SELFCHECK[{label}] failed: {e[-500:]}")
            return
        outs.append(o.strip().splitlines()[-1])
    if outs[0] != outs[1]:
        rep.harness(f"HARNESS-NONDETERMINISM[{label}]: {outs[0][:200]} vs "
                    f"{outs[1][:200]}")
    rep.cov.setdefault("determinism_selfchecks", []).append(
        {"driver": label, "equal": outs[0] == outs[1]})


if __name__ == "__main__":
    import mc
    mc.assert_tree()
    module, name, hist = sys.argv[1], sys.argv[2], json.loads(sys.argv[3])
    drv = get_driver(module, name)
    world, obs = build(drv, hist)
    print(json.dumps([drv.canon(world), obs], default=repr, sort_keys=True))
