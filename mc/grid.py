"""GRID - exhaustive cartesian enumeration, chunked over the spawn pool."""
import importlib
import itertools

from . import state
from .core import pmap, chunks, shuffled


def product_cases(axes, **fixed):
    """full cartesian product of `axes` (ordered dict name -> values)"""
    names = list(axes)
    out = []
    for combo in itertools.product(*[axes[n] for n in names]):
        c = dict(zip(names, combo))
        c.update(fixed)
        out.append(c)
    return out


def _work(args):
    module, fname, cases = args
    fn = getattr(importlib.import_module(module), fname)
    res = []
    for c in cases:
        try:
            state.restore()     # every case starts pristine
            vs, info = fn(c)
            res.append((c, vs, info, None))
        except BaseException as e:
            if isinstance(e, (KeyboardInterrupt, SystemExit, MemoryError)):
                raise
            import traceback
            res.append((c, [], None, traceback.format_exc()[-1500:]))
    return res


def run_cases(rep, module, fname, cases, chunk=8, label="cases"):
    """Evaluate every case; `fn(case) -> (violations, info)` where info is
    a hashable outcome class (or None).  Adds counters to `rep` and
    returns {outcome class: count}."""
    jobs = [(module, fname, ch) for ch in chunks(shuffled(cases), chunk)]
    classes = {}
    n = 0
    for res in pmap(_work, jobs, inline_below=1):
        for c, vs, info, err in res:
            n += 1
            rep.extend(vs)
            if err:
                rep.harness(f"case {c} crashed in the harness:\n{err}")
            if info is not None:
                classes[info] = classes.get(info, 0) + 1
    rep.add("evaluations", n)
    rep.add(label, n)
    return classes
