"""Synthetic force-distance curves with known ground truth."""
import numpy as np

MODELS5 = ["hertz_para", "hertz_cone", "hertz_pyr3s", "sneddon_spher_approx",
           "power_layer_clifford_2009"]


def truth_params(model_key, **over):
    from nanite import model as nmodel
    md = nmodel.models_available[model_key]
    p0 = md.get_parameter_defaults()
    tr = {k: p0[k].value for k in p0}
    tr.update(over)
    return tr


def make_arrays(model_key, params, n_app=300, n_ret=300, x_start=2e-6,
                depth=1e-6, noise=0.0, seed=0, k_spring=0.05, tilt=0.0,
                drift=0.0, lag=0, quant=0.0, nonuniform=False, drive="linear"):
    """approach from cp+x_start down to cp-depth, retract back.

    tilt: linear force trend in space [N/m]; drift: linear in time [N/s];
    lag: force maximum `lag` samples after the piezo turning point;
    quant: quantise heights to multiples of `quant` (plateaus).
    Returns dict of columns (tip position `x` is the *true* tip position).
    """
    from nanite import model as nmodel
    md = nmodel.models_available[model_key]
    cp = params["contact_point"]
    if drive == "cos":
        # smooth z-drive: decelerates towards the turning point
        ua = np.sin(np.pi / 2 * np.linspace(0, 1, n_app))
        ur = 1 - np.cos(np.pi / 2 * np.linspace(0, 1, n_ret + 1)[1:])
    elif nonuniform:
        ua = np.linspace(0, 1, n_app) ** 1.7
        ur = np.linspace(0, 1, n_ret + 1)[1:] ** 0.6
    else:
        ua = np.linspace(0, 1, n_app)
        ur = np.linspace(0, 1, n_ret + 1)[1:]
    xa = (cp + x_start) + ua * (-depth - x_start)
    xr = (cp - depth) + ur * (depth + x_start)
    x = np.concatenate([xa, xr])
    f = md.module.model_func(x, **params)
    t = np.arange(x.size) * 1e-3
    if lag:
        # the force keeps rising for `lag` samples after the piezo turned
        f = np.concatenate([f[:n_app], f[n_app - 1]
                            + (f[n_app - 1] - f[n_app - 2])
                            * np.arange(1, lag + 1),
                            f[n_app:x.size - lag]])[:x.size]
    f = f + tilt * (x - x[0]) + drift * t
    if noise:
        rng = np.random.RandomState(seed)
        f = f + rng.normal(0, noise, size=f.size)
    seg = np.concatenate([np.zeros(n_app, np.uint8), np.ones(n_ret, np.uint8)])
    hm = x - f / k_spring
    if quant:
        hm = np.round(hm / quant) * quant
    return {"force": f, "segment": seg, "time": t,
            "height (measured)": hm, "tip position": x}


def make_curve(model_key, params, innate_tip=True, path="/verif/scratch/synth.h5",
               enum=0, k_spring=0.05, extra_meta=None, **kw):
    from nanite.indent import Indentation
    data = make_arrays(model_key, params, k_spring=k_spring, **kw)
    if not innate_tip:
        data.pop("tip position")
    meta = {"path": path, "enum": enum, "spring constant": k_spring,
            "imaging mode": "force-distance", "point count": data["force"].size}
    if extra_meta:
        meta.update(extra_meta)
    return Indentation(data=data, metadata=meta)


def write_h5(path, curves, grid=None):
    """Write curves (list of column dicts) as an afmformats HDF5 file.

    grid: optional list of (ix, iy) per curve with shape (nx, ny, dx) to
    make it a quantitative map.
    """
    import h5py
    with h5py.File(path, "w") as h5:
        for ii, cols in enumerate(curves):
            cols = dict(cols)
            meta = cols.pop("_meta", {})
            grp = h5.create_group(str(ii))
            for k, v in cols.items():
                grp.create_dataset(k, data=np.asarray(v))
            m = {"enum": ii, "imaging mode": "force-distance",
                 "point count": len(cols["force"]),
                 "spring constant": 0.05,
                 "software": "nanite-verif", "software version": "0",
                 "format": "HDF5 (afmformats)",
                 }
            m.update(meta)
            for k, v in m.items():
                grp.attrs[k] = v
    return path
