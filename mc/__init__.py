"""Bounded-exhaustive exploration (model checking) of AFM-analysis/nanite.

Importing this package pins the interpreter to the tree under test
(`/repo/src`, or `$VERIF_TREE/src` for seeded-change experiments) and
fixes BLAS/OpenMP threading so that every worker is single-threaded
and deterministic.
"""
import os
import sys
import warnings

for _v in ("OMP_NUM_THREADS", "OPENBLAS_NUM_THREADS", "MKL_NUM_THREADS",
           "NUMEXPR_NUM_THREADS"):
    os.environ[_v] = "1"
os.environ.setdefault("MPLBACKEND", "Agg")

VERIF_ROOT = os.path.dirname(os.path.dirname(os.path.abspath(__file__)))
TREE = os.environ.get("VERIF_TREE", "/repo")
TREE_SRC = os.path.join(TREE, "src")
if TREE_SRC not in sys.path[:1]:
    sys.path.insert(0, TREE_SRC)

warnings.simplefilter("ignore")


def assert_tree():
    """Make sure `nanite` is imported from the tree under test."""
    import nanite
    got = os.path.realpath(nanite.__file__)
    want = os.path.realpath(TREE_SRC) + os.sep
    if not got.startswith(want):
        raise SystemExit(
            f"HARNESS-TREE: nanite imported from {got}, expected {want}")
    return got
