"""Regenerates /verif/MANIFEST.json from the table below (python3 -m mc.manifest)."""
import json
import os

ROOT = os.path.dirname(os.path.dirname(os.path.abspath(__file__)))

ALL = [f"C{i:02d}" for i in range(1, 21)]

CHECKS = {
    "C14": dict(
        category="model_checking",
        text="Complete enumeration of the finite input space the property "
             "quantifies over: all 1957 ordered selections of the 6 shipped "
             "steps through the real autosort/check_order/apply, every "
             "insertion of an unknown identifier, all ordered pairs of "
             "autosort calls on orderings of one step set and every admissible "
             "list after every admissible list (each pair from a pristine "
             "module state); reference order predicates "
             "derived from the step metadata; apply through all five ways of "
             "handing over the list (positional, keyword, deprecated keyword, "
             "deprecated class); after every case the list of available steps "
             "is still complete and valid. Exhaustive, so this decides the "
             "property for the shipped step set.",
        design_ref="DESIGN.md §2 C14",
        note="Trusts the decorator metadata (steps_required/steps_optional) "
             "as the statement of the rules; a 7th step added later is "
             "enumerated automatically (the step list is read from the tree).",
        technique="exhaustive enumeration of all ordered step selections "
                  "against a reference predicate (explicit-state, on the implementation)",
        engine="enum",
    ),
    "C03": dict(
        category="model_checking",
        text="Explicit-state BFS over operation histories on the real "
             "Indentation (30-op alphabet to depth 3/4 plus six focused "
             "drivers to depth 3-6: plateau, gcf/relative, failures, failures "
             "on a curve with innate tip position, near-equal initial "
             "parameters, recorded curve) with a differential from-scratch oracle "
             "per new state and an optimisation counter per transition; the "
             "settings store (FitProperties) alone is explored to closure "
             "against a dict + ghost-bit reference. History-dependence bugs "
             "need 2-4 specific calls in sequence, which is exactly what an "
             "exhaustive bounded search over call sequences finds.",
        design_ref="DESIGN.md §2 C03",
        note="Depth-bounded for the whole-curve layer; the fresh-object "
             "oracle cannot see errors a fresh object shares (C02/C04/C05). "
             "Known findings D13 (stale result columns) and D28 / D28b "
             "(direct edits of the two pipeline settings cannot reach the "
             "curve) are listed in known_findings.json.",
        technique="explicit-state BFS over operation histories of the real "
                  "object, canonical-state dedup, differential fresh-object "
                  "oracle; closure search of the settings store",
        engine="hist+store",
    ),
    "C06": dict(
        category="model_checking",
        text="Explicit-state BFS over sequences of 7 valid and 8 invalid "
             "(steps, options) requests through apply_preprocessing "
             "(with/without ret_details) and fit_model(preprocessing=...), "
             "interleaved with fits and a rating, plus requests through one "
             "client-owned options dictionary edited in place: all ordered pairs (quick) "
             "/ triples (thorough) on a synthetic and recorded curves. "
             "Oracles: byte equality with a fresh curve, rejection "
             "predicate, raw-data digest. Pair/sequence quantifier is "
             "covered completely for the request set (which contains two "
             "pipelines whose segment switch falls on different samples).",
        design_ref="DESIGN.md §2 C06",
        note="Request set is finite and listed in the evidence; depth "
             "bound 2 (quick) / 3 (thorough).",
        technique="explicit-state BFS over request sequences on the real "
                  "object with differential fresh-object oracle",
        engine="hist",
    ),
    "C10": dict(
        category="model_checking",
        text="Explicit-state BFS in twin mode: every history of API calls "
             "and in-place edits of six long-lived caller objects (depth "
             "2-6) is executed twice, once handing the API the caller's own "
             "objects and once handing it deep copies; states must agree "
             "after every call and argument digests must be unchanged by "
             "every call (incl. ret_details=True; returned arrays must not "
             "share memory with arguments). Pure entry points (POC estimators, model and "
             "residual functions, rater, features) are enumerated over a "
             "grid with before/after digests; for the model/residual functions "
             "all call/edit sequences up to length 4 (5) on long-lived "
             "parameter, abscissa and force objects are compared with fresh copies; "
             "step lists / option dictionaries handed over through the public "
             "attributes, followed by every pair of later calls; ratings with "
             "an in-memory training set the caller edits in place.",
        design_ref="DESIGN.md §2 C10",
        note="Alias structure is part of the canonical state; an edit "
             "counts only if the twin notices it (non-vacuity enforced, "
             "exit 2 otherwise).",
        technique="explicit-state BFS over call/edit histories, aliased run "
                  "vs by-value twin (differential), on the implementation",
        engine="hist",
    ),
    "C09": dict(
        category="model_checking",
        text="Explicit-state BFS over curve-state operations (preprocess, "
             "fit, refit, unsuccessful fit, settings edit, failed call) "
             "interleaved with 9 rating operations to depth 3/4 on curves "
             "with >= 600 and < 600 approach points and a recorded curve "
             "(plus a deeper search, depth 4/6, over rejected requests, fits "
             "and ratings on the short curve); "
             "after every rating the value is compared with the documented "
             "rules and with a separately constructed standalone rater. A "
             "full sweep of all regressors x training sets x feature "
             "subsets x LDA flags runs over 12 representative states, and "
             "a rating table is recomputed in 3 interpreters with different "
             "hash seeds. Further drivers: a curve fitted with the plateau "
             "search (refits changing only its settings), in-memory "
             "training sets incl. one tuple kept by the caller for all "
             "ratings of a history and one with curves rated -1.",
        design_ref="DESIGN.md §2 C09",
        note="[0,10] demanded only for the averaging tree regressors "
             "without LDA; in-memory (X, y) training sets are exercised via "
             "the standalone rater only.",
        technique="explicit-state BFS over operation histories with a "
                  "rule/standalone-rater oracle per rating; exhaustive menu "
                  "sweep; process enumeration",
        engine="hist",
    ),
    "C12": dict(
        category="model_checking",
        text="Exhaustive grid: all ordered value pairs per setting key on "
             "4 base configurations, every parameter x attribute, 1-ulp and "
             "1% perturbation at every sample index of both axes, all "
             "representation variants (tuple/list, int/float/numpy/bool, "
             "all dict permutations), don't-cares; plus BFS over the C03 "
             "alphabet (depth 3/4) checking that hash <-> (data, effective "
             "settings) is a bijection over all fitted states and that the "
             "stored hash equals the recomputed one; hash table recomputed "
             "under 3 PYTHONHASHSEED values.",
        design_ref="DESIGN.md §2 C12",
        note="Value domains are realistic physical values (DESIGN O5/O6).",
        technique="exhaustive cartesian enumeration + explicit-state BFS "
                  "with a bijection invariant; process enumeration",
        engine="hist+grid",
    ),
    "C16": dict(
        category="model_checking",
        text="Explicit-state BFS over sequences of save(curve, fit, user) "
             "(18+9 ops, depth 2/3) on real HDF5 containers against a dict "
             "reference: canonical byte-level dump per state, full reload "
             "with column/setting/parameter/user/feature comparison. Fault "
             "enumeration: from every pre-state up to depth 1/2, for every "
             "op, an OSError is raised at each of the W (~30-41) h5py write "
             "calls of the save; afterwards all earlier ratings must load "
             "unchanged and a retry of the interrupted save must end in the "
             "state of a clean save; folders with several containers holding "
             "the same curve are compared with per-container loads.",
        design_ref="DESIGN.md §2 C16",
        note="Faults are exceptions at h5py call boundaries with a normal "
             "close; torn pages inside libhdf5 are out of scope.",
        technique="explicit-state BFS over save histories + exhaustive "
                  "fault-point enumeration inside every save, on the "
                  "implementation",
        engine="hist+fault",
    ),
    "C18": dict(
        category="model_checking",
        text="Closure search over register / register(NaniteFitModel) / "
             "deregister / load_model_from_file(register in {F,T}) on three "
             "modules and three files (two sharing a key) against a dict "
             "reference, to a fixpoint (every history over the alphabet); "
             "complete enumeration of the single-fault mutants the property "
             "names (13 missing attributes, 6 list-length faults, duplicate "
             "name, 4 key-order swaps) through both entry points, fresh, "
             "under a key already in use, and applied in place to a module "
             "object that was accepted (and deregistered) before; loader "
             "inputs (valid, missing, syntax error, failing inner import, "
             "raising module, incomplete model) x position of the directory "
             "on sys.path; same-stem files; file copies of all shipped "
             "models; every ancillary key x {finite, NaN}; every sequence "
             "(<= 4) of register / re-key / deregister-by-handle on one "
             "module object.",
        design_ref="DESIGN.md §2 C18",
        note="Registry, sys.path and sys.modules are snapshotted and "
             "restored around every transition.",
        technique="closure (fixpoint) search of the registry state machine "
                  "+ complete single-fault mutant enumeration, on the "
                  "implementation",
        engine="store",
    ),
    "C19": dict(
        category="model_checking",
        text="(A) Profile file as a store: deviation-bounded closure search "
             "(<= 2/3 keys off default) of set/get/reopen/get_fit_params "
             "against a dict; (B) legacy key=value rendering of every "
             "reached state incl. 'approach'/'retract'; (C) setup_profile() "
             "under a scripted input(): every script with <= 2/3 answered "
             "prompts, each answer from a finite menu, from three start "
             "profiles (default, non-default, legacy file); (D) every "
             "distinct fit-relevant profile produced goes through fit_data "
             "on a fresh curve, and fit_perform's statistics.tsv is "
             "compared row by row on a two-file folder.",
        design_ref="DESIGN.md §2 C19",
        note="Menus hold well-formed, in-bounds answers; an answer the "
             "prompt rejects (asks again) is not an accepted answer; the "
             "compiled sneddon_spher plug-in is not fitted.",
        technique="closure search of the profile store + exhaustive "
                  "deviation-bounded enumeration of answer scripts against "
                  "the real interactive setup, acceptance by the real batch "
                  "fit",
        engine="store",
    ),
    "C20": dict(
        category="model_checking",
        text="Exhaustive grid of synthetic measurement files (5 grid "
             "shapes x 6 scan orders x missing curve, every curve with its "
             "own modulus), nested folders, spring-constant / tip-position / "
             "meta_override variants and the recorded JPK files: count, "
             "order, unique enums, monotone callbacks, refusal rule, pixel "
             "values. Explicit-state BFS over fit / refit-with-other-model / "
             "settings-edit / rate / preprocess on the curves of a 2x2 map "
             "(depth 3-6) with the pixel oracle (own value at own pixel, "
             "else NaN + one warning) in every state.",
        design_ref="DESIGN.md §2 C20",
        note="'current rating' = the curve's last computed rating; folder "
             "order = afmformats.find_data order.",
        technique="exhaustive file-grid enumeration + explicit-state BFS "
                  "over map histories with a per-pixel invariant",
        engine="hist+grid",
    ),
    "C02": dict(
        category="exploration",
        text="Exhaustive cartesian grid: 5 shipped models x full parameter "
             "box (E over 4 decades, geometry, Poisson ratios, layer "
             "parameters) x 3-5 contact points x 3-4 baselines x 8 "
             "indentation arrays (descending, ascending, unsorted, exact "
             "contact point and its 1-ulp neighbours, depths up to R, "
             "length 1, empty) against a scalar literature reference; "
             "bit-exact baseline out of contact; truncated series vs the "
             "exact parametric Sneddon solution on 400 depths up to R; "
             "documented constants; the shipped formulas again after a "
             "user model with a clashing function name was wrapped / "
             "registered / removed in the same process.",
        design_ref="DESIGN.md §2 C02",
        note="Continuum claim decided on the stated grid; excluded points "
             "where the documented formula is undefined are listed.",
        technique="exhaustive bounded enumeration of inputs against an "
                  "independent reference model",
        engine="grid",
    ),
    "C13": dict(
        category="exploration",
        text="Exhaustive grid over every registered model (5 shipped, the "
             "installed plug-in in a watchdog child, 3 harness-defined "
             "models: order-sensitive, with ancillaries, with an expression "
             "parameter) x parameter cells x 6 abscissa arrays of either "
             "orientation x translations, baseline shifts, modulus scales, "
             "continuity ladder, weighting distances; plus complete fits of "
             "the order-sensitive model on both segments and re-registration "
             "of changed code under one key; for shipped models also "
             "abscissae that are locally unordered at the contact point "
             "(every sample gets the force of its own abscissa value) and "
             "tip radii in the nm range with depths up to the radius.",
        design_ref="DESIGN.md §2 C13",
        note="Bit-exact where the arithmetic is exact (dyadic), ulp-scaled "
             "tolerances elsewhere.",
        technique="exhaustive bounded enumeration of models x inputs with "
                  "metamorphic relations as oracle",
        engine="grid",
    ),
    "C04": dict(
        category="exploration",
        text="Exhaustive grid: 6 synthetic curves (3 models x clean/noisy) "
             "x fitted model (own, a deliberately poor one, an "
             "expression-constrained harness model) x segment x 6 ranges "
             "(whole, interior, on samples, inverted, 3- and 5-point) x "
             "range type x 3 weighting distances x k in {1, 0.5, 0.23} x "
             "all subsets of {E, contact point, baseline} held fixed; every "
             "output relation is re-computed with independent arithmetic "
             "(C02's literature reference for the fit column); constraint "
             "expressions of the caller's on contact point / baseline; a "
             "three-segment curve (fits of segment 0 and 2).",
        design_ref="DESIGN.md §2 C04",
        note="Weighting distance under k != 1 is read in fitting "
             "coordinates; a fixed contact point may move by 2 ulp for "
             "k != 1 (cp*k/k).",
        technique="exhaustive bounded enumeration of fit configurations "
                  "with an independent-arithmetic oracle",
        engine="grid",
    ),
    "C05": dict(
        category="exploration",
        text="Exhaustive grid: 3 curves x both segments x all 144 ordered "
             "pairs of 12 interval endpoints built from the curve itself "
             "(on samples, between samples, 1-ulp neighbours, segment ends, "
             "+-inf, equal, inverted) x k in {1, 0.5}; 7 relative "
             "intervals; plateau search with 3 sample counts x 4 ranges; "
             "all length-3 sequences of sample-count changes, fits and "
             "manual scans on one object. "
             "Every optimisation pass is intercepted (lmfit.minimize "
             "wrapper) and the point set it was given is compared with a "
             "set comprehension over the abscissa.",
        design_ref="DESIGN.md §2 C05",
        note="Plateau search on the approach segment with >= 7 samples "
             "only (O2, O10).",
        technique="exhaustive bounded enumeration of range configurations "
                  "with per-pass monitoring and a set-comprehension oracle",
        engine="grid",
    ),
    "C11": dict(
        category="exploration",
        text="Exhaustive grid: 3 power-law models x 6 values of k x "
             "clean/noisy x segment x 4 range modes (whole, interval, "
             "relative cp, plateau) x 3 initial contact points (incl. "
             "non-zero); each cell is compared with the k = 1 run of the "
             "same cell (contact point, baseline, curve, xmin/xmax, mask, "
             "E k^p), and every optimisation pass must start from k x the "
             "stored initial contact point on k x the measured abscissa "
             "(exact check); cells without initial parameters check that the "
             "estimated contact point does not depend on k; k changed on a "
             "fitted curve (keyword, edit, together with a model switch).",
        design_ref="DESIGN.md §2 C11",
        note="Plateau cells on noisy data / strongly mismatched models "
             "get the exact per-pass checks only (shallow scan fits are "
             "ill-conditioned for every k).",
        technique="exhaustive bounded enumeration with a metamorphic "
                  "(k vs k=1) oracle and per-pass monitoring",
        engine="grid",
    ),
    "C01": dict(
        category="exploration",
        text="Full cartesian grid with known ground truth: 5 shipped models "
             "x modulus over 4 decades x contact point x baseline x geometry "
             "x sampling (60/300/1500 points, uniform/non-uniform) x segment "
             "x weighting width x minimizer (leastsq, nelder) x all 8 "
             "corners of the stated convergence basin x noise level x noise "
             "realisation (quick: a sub-grid in which every axis takes >= 2 "
             "values); success flag, parameter recovery to optimiser "
             "precision, curve recovery on the whole fitted segment (also for "
             "fits on an absolute / contact-point-relative sub-interval), "
             "noise-proportional error bounds; per model, a sequence of "
             "fits on different curves in one process (the first with a "
             "user-fixed baseline); tip positions jittered by a few "
             "sampling steps (locally unordered sampling).",
        design_ref="DESIGN.md §2 C01",
        note="The convergence basin and the noise constants are stated by "
             "the check (regression bounds); the layered model's sample "
             "modulus is checked noise-free with identifiable layer "
             "parameters held fixed.",
        technique="exhaustive bounded enumeration of generated inputs with "
                  "ground-truth oracle",
        engine="grid",
    ),
    "C07": dict(
        category="exploration",
        text="Full product of a well-formed curve family (5 models x noise "
             "x tilt x drift x turning-point lag x height quantisation) plus "
             "recorded curves; every step is applied as the last step of "
             "its minimal pipeline with every option value (6 contact-point "
             "methods, 3 regions x 2 strategies) and compared with the state "
             "just before it through relations (constant shift, zero at the "
             "estimated index, untouched outside the region, no jump, trend "
             "removed, single switch at the farthest point, strict "
             "monotonicity, un-owned columns byte-identical); the family "
             "includes curves with all lengths scaled down to nm "
             "indentations.",
        design_ref="DESIGN.md §2 C07",
        note="'Well-formed' is a predicate on the raw curve fixed up front.",
        technique="exhaustive bounded enumeration with relational "
                  "(before/after) oracles",
        engine="grid",
    ),
    "C08": dict(
        category="exploration",
        text="Full product estimator (6) x curve family (5 models x 3 noise "
             "levels x 3 baseline fractions x tilt x 2 lengths) x 12 "
             "transformations (power-of-two and other scales, shifts, "
             "combinations), a degenerate family (7 shapes x 11 lengths) and "
             "recorded curves: valid index, exact invariance for dyadic "
             "scales, within one sample otherwise, stated accuracy on clean "
             "curves, documented fallback without exception; the "
             "Indentation-level entry point over pipeline histories agrees "
             "with the estimator on the current force; force arrays of "
             "integer type (whole fN / pN) and a 40 000-sample approach "
             "included.",
        design_ref="DESIGN.md §2 C08",
        note="Accuracy fractions are regression bounds per estimator and "
             "baseline class.",
        technique="exhaustive bounded enumeration with metamorphic "
                  "(scale/shift) and ground-truth oracles",
        engine="grid",
    ),
    "C15": dict(
        category="exploration",
        text="Every training matrix over {finite(row, col), NaN, +inf, "
             "-inf} for shapes up to 3x2 / 2x3 (thorough: 3x3, 4x2 with a "
             "bound on non-finite cells) x every response vector x all 8 "
             "flag combinations, written as a real training-set directory "
             "and loaded, against a row-wise reference; all rating vectors "
             "over 0..10 up to length 4 for the sample weights; container -> "
             "export_training_set -> load_training_set round trips, incl. "
             "containers that are folders of rating files sharing curves "
             "(expected rows from the stored objects).",
        design_ref="DESIGN.md §2 C15",
        note="Loads whose reference is undefined (a column with only +-inf) "
             "are counted, not judged.",
        technique="exhaustive enumeration of small inputs against a "
                  "reference implementation (small-scope)",
        engine="grid",
    ),
    "C17": dict(
        category="exploration",
        text="Full product of fitted curve states (3 models x 3 noise "
             "levels x spikes x 3 approach lengths x 3 contact positions), "
             "unfitted / edited / unsuccessful states and recorded good and "
             "bad curves x 21 feature subsets x 5 common scale factors x "
             "retract perturbation: ranges, order/alignment, curve "
             "unchanged, bit-exact invariance for dyadic scales; all ordered "
             "pairs of 9 special curves (incl. a saturated detector) whose "
             "features are computed one after the other in one process.",
        design_ref="DESIGN.md §2 C17",
        note="Scaling is applied to the force and fit columns of the fitted "
             "state, as the property words it.",
        technique="exhaustive bounded enumeration with range and "
                  "metamorphic oracles",
        engine="grid",
    ),
}

NA_REASON = "check not built yet in this session (under construction; see DESIGN.md §9 work order)"


def build():
    checks = []
    for pid in ALL:
        if pid not in CHECKS:
            continue
        c = CHECKS[pid]
        checks.append({
            "property_id": pid,
            "quick_cmd": f"./check {pid} --tier quick",
            "thorough_cmd": f"./check {pid} --tier thorough",
            "evidence_file": f"/verif/evidence/{pid}.json",
            "replay_cmd_template": f"./check {pid} --replay {{path}}",
            "engine": c["engine"],
            "level_claimed": {"category": c["category"], "text": c["text"],
                              "design_ref": c["design_ref"]},
            "level_note": c["note"],
            "technique": c["technique"],
        })
    man = {
        "version": 1,
        "setup_cmd": "./setup.sh",
        "hooks": {
            "guard": "NANITE_VERIF",
            "enable": "no source hooks exist: counters and fault points are attached from the harness by monkey-patching (lmfit.minimize, get_rater, h5py, builtins.input); checks import nanite from /repo/src directly",
            "baseline_off_cmd": "cd /repo && /venv/bin/python -m pytest -ra -q -p no:cacheprovider --timeout=900 --continue-on-collection-errors",
            "source_commits": [],
            "add_only": True,
        },
        "engines": [
            {"name": "enum", "path": "mc/props/c14.py", "serves_properties": ["C14"],
             "kind_free_text": "complete enumeration of a finite input domain on the implementation"},
            {"name": "hist", "path": "mc/hist.py", "serves_properties": ["C03", "C06", "C09", "C10", "C12", "C16", "C20"],
             "kind_free_text": "explicit-state breadth-first search over operation histories on real objects (replay from scratch, canonical state hash that includes the library's module-level state, per-state and per-transition oracles, merge-soundness and determinism self-checks)"},
            {"name": "grid", "path": "mc/grid.py", "serves_properties": ["C01", "C02", "C04", "C05", "C07", "C08", "C11", "C13", "C15", "C17"],
             "kind_free_text": "exhaustive cartesian enumeration of inputs/configurations, chunked over a spawn pool, reference-model or relational oracle per cell"},
            {"name": "store", "path": "mc/props/c03_store.py", "serves_properties": ["C03", "C18", "C19"],
             "kind_free_text": "closure (fixpoint) search of small dictionary-like stores against a reference model"},
        ],
        "checks": checks,
        "notes": "All checks run the real nanite code from /repo/src (no build step). Exit 0 = held, 1 = VIOLATION (every reported counterexample was re-executed and reproduced in a fresh interpreter), 2 = harness error (no verdict). known_findings.json lists genuine defects (fixed ones with their fix: commit). seeded/ holds 267 confirmed property-breaking changes with the checks' results (seeded/MATRIX.md); tools/seedtest.py re-runs them.",
        "not_applicable": [{"property_id": p, "reason": NA_REASON}
                           for p in ALL if p not in CHECKS],
    }
    return man


if __name__ == "__main__":
    man = build()
    with open(os.path.join(ROOT, "MANIFEST.json"), "w") as fd:
        json.dump(man, fd, indent=1)
    print("checks:", [c["property_id"] for c in man["checks"]])
