"""Process-global state of the library under test.

Long-lived worker processes execute thousands of cases / histories.  Any
module-level state of nanite (registries, memo dictionaries, lru caches,
mutable default arguments, attributes stored on functions or classes) makes
the outcome of one case depend on the cases that ran before it in the same
worker - which would make verdicts irreproducible.  The explorer therefore
snapshots that state once, while it is pristine, and restores it before
every case / history, so that each execution starts from the state of a
fresh interpreter (DESIGN 1.1, "own every source of nondeterminism").
"""
import copy
import sys
import types

_CONTAINERS = (list, dict, set)
_SNAP = None


def _modules():
    return [m for n, m in sorted(sys.modules.items())
            if (n == "nanite" or n.startswith("nanite."))
            and isinstance(m, types.ModuleType)]


def _copy(val, depth=0):
    """structural copy: containers (dict / list / set / tuple) are copied
    recursively, everything else (classes, functions, models, arrays) is
    kept by reference"""
    try:
        if depth > 6:
            return val
        if isinstance(val, dict):
            out = copy.copy(val)
            out.clear()
            for k, v in val.items():
                out[k] = _copy(v, depth + 1)
            return out
        if isinstance(val, list):
            return [_copy(v, depth + 1) for v in val]
        if isinstance(val, tuple) and type(val) is tuple:
            return tuple(_copy(v, depth + 1) for v in val)
        if isinstance(val, (set, frozenset)):
            return copy.copy(val)
        return val
    except Exception:
        return None


def _holders(mod):
    """objects whose attribute dictionaries may carry state: the module,
    its classes, its functions (incl. methods)"""
    out = [mod]
    for name, val in list(vars(mod).items()):
        if getattr(val, "__module__", None) != mod.__name__:
            continue
        if isinstance(val, type):
            out.append(val)
            for an, av in list(vars(val).items()):
                f = getattr(av, "__func__", av)
                if isinstance(f, types.FunctionType):
                    out.append(f)
        elif isinstance(val, types.FunctionType):
            out.append(val)
        elif hasattr(val, "__wrapped__") and isinstance(
                getattr(val, "__wrapped__"), types.FunctionType):
            out.append(val.__wrapped__)
    return out


def _plain(val, depth=0):
    """nested plain data (can be deep-copied safely)?"""
    if isinstance(val, (str, bytes, int, float, bool, complex, type(None))):
        return True
    if depth > 4:
        return False
    if isinstance(val, (list, tuple, set, frozenset)):
        return all(_plain(v, depth + 1) for v in val)
    if isinstance(val, dict):
        return all(_plain(k, depth + 1) and _plain(v, depth + 1)
                   for k, v in val.items())
    return False


def _nested(val):
    vals = val.values() if isinstance(val, dict) else val
    return any(isinstance(v, (list, dict, set, tuple)) for v in vals)


def pristine(modname, attr):
    """structural copy of a module-level container as it was when the
    snapshot was taken"""
    snapshot()
    for mn, holder, name, obj, saved, deep in _SNAP["attrs"]:
        if mn == modname and name == attr and isinstance(
                holder, types.ModuleType):
            return _copy(saved)
    raise KeyError((modname, attr))


def _modname(holder):
    if isinstance(holder, types.ModuleType):
        return holder.__name__
    return getattr(holder, "__module__", "") or ""


def snapshot(force=False):
    """record the mutable global state (call while it is pristine)"""
    global _SNAP
    if _SNAP is not None and not force:
        return
    import nanite  # noqa: F401
    for sub in ("nanite.fit", "nanite.indent", "nanite.preproc", "nanite.poc",
                "nanite.model", "nanite.model.core", "nanite.model.logic",
                "nanite.model.residuals", "nanite.rate", "nanite.rate.io",
                "nanite.rate.rater", "nanite.rate.features", "nanite.qmap",
                "nanite.group", "nanite.read", "nanite.smooth"):
        try:
            __import__(sub)
        except Exception:
            pass
    snap = {"attrs": [], "names": [], "defaults": [], "caches": []}
    # process-wide settings of numpy that library code can change
    # (np.seterr without restoring it)
    import numpy as np
    snap["np_err"] = dict(np.geterr())
    for mod in _modules():
        for holder in _holders(mod):
            try:
                d = vars(holder)
            except TypeError:
                continue
            mn = _modname(holder)
            snap["names"].append((mn, holder, set(d.keys())))
            for name, val in list(d.items()):
                if name.startswith("__") and name.endswith("__"):
                    continue
                if isinstance(val, _CONTAINERS):
                    deep = _nested(val)
                    saved = _copy(val)
                    snap["attrs"].append((mn, holder, name, val, saved, deep))
            if isinstance(holder, types.FunctionType):
                for kind in ("__defaults__", "__kwdefaults__"):
                    dv = getattr(holder, kind, None)
                    vals = dv.values() if isinstance(dv, dict) else (dv or ())
                    for v in vals:
                        if isinstance(v, _CONTAINERS):
                            snap["defaults"].append((mn, v, _copy(v)))
        for val in list(vars(mod).values()):
            cc = getattr(val, "cache_clear", None)
            if callable(cc) and isinstance(
                    getattr(val, "__wrapped__", None), types.FunctionType):
                snap["caches"].append((mod.__name__, cc))
    _SNAP = snap


def _refill(obj, saved):
    if isinstance(obj, list):
        obj[:] = saved
    elif isinstance(obj, dict):
        obj.clear()
        obj.update(saved)
    elif isinstance(obj, set):
        obj.clear()
        obj.update(saved)


def restore(prefix="nanite"):
    """bring the recorded state back (call before every case); `prefix`
    restricts the work to modules whose name starts with it"""
    if _SNAP is None:
        snapshot()
        return
    for mn, holder, name, obj, saved, deep in _SNAP["attrs"]:
        if saved is None or not mn.startswith(prefix):
            continue
        if deep or obj != saved:
            _refill(obj, _copy(saved))
        try:
            if vars(holder).get(name) is not obj:
                setattr(holder, name, obj)
        except (TypeError, AttributeError):
            pass
    for mn, obj, saved in _SNAP["defaults"]:
        if saved is not None and mn.startswith(prefix):
            _refill(obj, saved)
    for mn, holder, names in _SNAP["names"]:
        if not mn.startswith(prefix):
            continue
        try:
            d = vars(holder)
        except TypeError:
            continue
        if len(d) == len(names) and d.keys() == names:
            continue
        for name in list(d.keys()):
            if name in names:
                continue
            # state that did not exist in a fresh interpreter
            try:
                delattr(holder, name)
            except (AttributeError, TypeError):
                pass
    for mn, cc in _SNAP["caches"]:
        if mn.startswith(prefix):
            try:
                cc()
            except Exception:
                pass
    import numpy as np
    if dict(np.geterr()) != _SNAP["np_err"]:
        np.seterr(**_SNAP["np_err"])


def _stable(val, depth=0):
    """hash-seed independent rendering of a piece of global state"""
    if depth > 4:
        return "..."
    if isinstance(val, (str, bytes, int, float, bool, complex, type(None))):
        return repr(val)
    if isinstance(val, (set, frozenset)):
        return "{" + ",".join(sorted(_stable(v, depth + 1) for v in val)) + "}"
    if isinstance(val, dict):
        return "{" + ",".join(sorted(
            _stable(k, depth + 1) + ":" + _stable(v, depth + 1)
            for k, v in val.items())) + "}"
    if isinstance(val, (list, tuple)):
        return "[" + ",".join(_stable(v, depth + 1) for v in val) + "]"
    try:
        import numpy as np
        if isinstance(val, np.ndarray):
            return f"nd{val.shape}{val.dtype}{val.tobytes()[:64].hex()}"
    except Exception:
        pass
    name = None
    for attr in ("identifier", "model_key", "__qualname__", "__name__"):
        name = getattr(val, attr, None)
        if isinstance(name, str):
            break
    return f"<{type(val).__name__}:{name}>"


def fingerprint(prefix="nanite"):
    """'' while the tracked global state equals the pristine one, else a
    stable description of what differs.  Part of the canonical state of
    the explicit-state search: library globals are state, too."""
    if _SNAP is None:
        return ""
    diff = []
    for mn, holder, name, obj, saved, deep in _SNAP["attrs"]:
        if saved is None or not mn.startswith(prefix):
            continue
        try:
            cur = vars(holder).get(name)
        except TypeError:
            cur = obj
        if cur is not obj or obj != saved:
            diff.append(f"{mn}:{getattr(holder, '__name__', '')}.{name}="
                        f"{_stable(cur)}")
    for mn, obj, saved in _SNAP["defaults"]:
        if saved is not None and mn.startswith(prefix) and obj != saved:
            diff.append(f"{mn}:default={_stable(obj)}")
    for mn, holder, names in _SNAP["names"]:
        if not mn.startswith(prefix):
            continue
        try:
            d = vars(holder)
        except TypeError:
            continue
        if len(d) == len(names) and d.keys() == names:
            continue
        for name in sorted(set(d.keys()) - names):
            if name.startswith("__") and name.endswith("__"):
                continue
            diff.append(f"{mn}:{getattr(holder, '__name__', '')}.{name}:new="
                        f"{_stable(d[name])}")
    import numpy as np
    if dict(np.geterr()) != _SNAP["np_err"]:
        diff.append("numpy:errstate=" + _stable(dict(np.geterr())))
    return "|".join(diff)
