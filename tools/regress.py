#!/usr/bin/env python3
"""Re-run the quick checks against every seeded change (regression sweep).

usage: tools/regress.py [--lanes 4] [--out FILE] [seed-id-prefix ...]

The first confirmation of a seed applies its patch to /repo itself
(tools/seedtest.py).  This sweep is the regression of the *checks*: it
re-runs, for every kept seed, the checks that are recorded as catching it,
and reports any (seed, check) pair that no longer exits 1.  To leave /repo
alone and to use the machine, it works in scratch worktrees of /repo's HEAD
under /tmp (one per lane, removed at the end) and points the checks at them
with VERIF_TREE.  One check id is only ever run in one lane at a time
(replay files are named per check).  Results are appended to each seed's
results.txt with the tag `tree=lane`.
"""
import json
import os
import queue
import shutil
import subprocess
import sys
import tempfile
import threading
import time

ROOT = os.path.dirname(os.path.dirname(os.path.abspath(__file__)))


def sh(cmd, **kw):
    return subprocess.run(cmd, shell=True, text=True, capture_output=True,
                          **kw)


def jobs(prefixes):
    out = {}
    sd = os.path.join(ROOT, "seeded")
    for d in sorted(os.listdir(sd)):
        p = os.path.join(sd, d)
        if not os.path.exists(os.path.join(p, "patch.diff")):
            continue
        if prefixes and not any(d.startswith(x) for x in prefixes):
            continue
        meta = json.load(open(os.path.join(p, "meta.json")))
        if meta.get("retired"):
            continue
        props = meta.get("checks") or meta.get("property")
        if isinstance(props, str):
            props = [props]
        for c in props:
            out.setdefault(c, []).append(d)
    return out


def lane(idx, q, results, lock, nproc):
    wt = tempfile.mkdtemp(prefix=f"regress_lane{idx}_", dir="/tmp")
    os.rmdir(wt)
    r = sh(f"git -C /repo worktree add -q --detach {wt} HEAD")
    assert r.returncode == 0, r.stderr
    shutil.copy("/repo/src/nanite/_version.py", f"{wt}/src/nanite/")
    env = dict(os.environ, VERIF_TREE=wt, VERIF_NPROC=str(nproc))
    try:
        while True:
            try:
                check, seeds = q.get_nowait()
            except queue.Empty:
                break
            for s in seeds:
                patch = os.path.join(ROOT, "seeded", s, "patch.diff")
                r = sh(f"git -C {wt} apply {patch}")
                if r.returncode != 0:
                    msg = f"check {check} PATCH-DOES-NOT-APPLY {r.stderr[:120]}"
                else:
                    t0 = time.time()
                    p = sh(f"./check {check} --tier quick", cwd=ROOT, env=env)
                    lines = p.stdout.strip().splitlines()
                    viol = [ln for ln in lines if ln.startswith("VIOLATION")]
                    clauses = [ln.strip() for ln in lines
                               if ln.strip().startswith("clause=")]
                    msg = (f"check {check} tier=quick exit={p.returncode} "
                           f"violations={len(viol)} "
                           f"wall={time.time() - t0:.0f}s tree=lane "
                           f"{' | '.join(clauses[:4])}")
                sh(f"git -C {wt} checkout -- . && git -C {wt} clean -fdq src")
                shutil.copy("/repo/src/nanite/_version.py",
                            f"{wt}/src/nanite/")
                with lock:
                    results.append((s, msg))
                    print(f"{s}: {msg[:200]}", flush=True)
                    with open(os.path.join(ROOT, "seeded", s, "results.txt"),
                              "a") as fd:
                        fd.write(time.strftime("%Y-%m-%d %H:%M:%S") + "\n"
                                 + msg + "\n")
    finally:
        sh(f"git -C /repo worktree remove --force {wt}")


def main():
    args = sys.argv[1:]
    lanes = 4
    if "--lanes" in args:
        i = args.index("--lanes")
        lanes = int(args[i + 1])
        del args[i:i + 2]
    todo = jobs(args)
    # longest queues first
    order = sorted(todo.items(), key=lambda kv: -len(kv[1]))
    q = queue.Queue()
    for kv in order:
        q.put(kv)
    results, lock = [], threading.Lock()
    nproc = max(4, 32 // lanes)
    th = [threading.Thread(target=lane, args=(i, q, results, lock, nproc))
          for i in range(lanes)]
    for t in th:
        t.start()
    for t in th:
        t.join()
    bad = [(s, m) for s, m in results if " exit=1 " not in m]
    print(f"REGRESS-DONE pairs={len(results)} not-caught={len(bad)}")
    for s, m in bad:
        print("NOT-CAUGHT", s, m[:200])
    sys.exit(1 if bad else 0)


if __name__ == "__main__":
    main()
