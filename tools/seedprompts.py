#!/usr/bin/env python3
"""Write the task descriptions for a round of seeding sub-agents.

usage: tools/seedprompts.py <round-number> [<worktree-root>]

For every property one file <root>/prompt<round>_<ID>.txt is written. A
sub-agent gets nothing but that text (the property record, its own scratch
worktree <root>/<ID> of /repo, and the one-sentence summaries of the ideas
of earlier rounds as "already used") - nothing from /verif.
"""
import json
import sys

T = '''You are given one semantic property of the Python library AFM-analysis/nanite (preprocessing, contact-point estimation, Hertz-model fitting via lmfit, ML-based quality rating of AFM force-indentation curves) and your own scratch git worktree of the repository at {wt} (detached HEAD; the library source is under {wt}/src/nanite, tests under {wt}/tests).

THE PROPERTY (this record is all you are given about it):
{prop}

YOUR TASK: produce a change to the library source ({wt}/src/nanite/...) that BREAKS this property while the library still imports and the existing, unedited test suite still passes completely (176 passed). Think of a realistic regression a developer could plausibly introduce (a refactoring slip, a wrong variable, an off-by-one, a missing copy, a cache key that forgets a component, two statements in the wrong order, a tolerance/units slip, state hoisted to module scope, ...). It must need something SPECIFIC to manifest - a particular multi-step sequence of calls, an unusual but legitimate input, a fault at a particular point, a particular configuration value, or two cooperating code sites that each look fine alone - NOT something that ordinary use (or the test suite) would expose at once. Prefer a subtle change over a blunt one. Do not weaken or edit tests. Do not add test files to the tests directory.

ALREADY USED - do NOT repeat these ideas or close variants of them; find a DIFFERENT mechanism, in a different function/file where possible, attacking a clause of the property statement (or a dimension of its quantifier) that none of them touches:
{used}
Read the property statement and its quantifier again, clause by clause, list for yourself which clauses/dimensions the ideas above exercise, and pick one they leave untouched. Less obvious code paths are welcome (rarely used options and entry points, second and later passes of multi-pass algorithms, interactions between two settings, objects reused across calls, module-level state, error paths followed by further calls, values that are zero / negative / equal to a default / at a bound, numerically small or large inputs, the other segment, other shipped models).

HOW TO WORK:
- Work ONLY inside {wt}. Never modify or read anything under /repo or /verif (they are off limits), and do not create git commits. NEVER use `git stash` (the stash is shared by all worktrees of this repository and other agents work in sibling worktrees).
- Run Python against your worktree with:  PYTHONPATH={wt}/src /venv/bin/python ...   (the PYTHONPATH makes `import nanite` use your worktree; check with `import nanite; print(nanite.__file__)`).
- Run the test suite with:  cd {wt} && PYTHONPATH={wt}/src /venv/bin/python -m pytest -q -p no:cacheprovider -n 8 tests     (takes about 15-40 s; must end with `176 passed`).
- The sandbox has no network; use only what is installed.
- Read the source to find where the property is enforced, then pick your change.

DELIVERABLES (all inside {wt}/SEED/, create the directory):
1. patch.diff  - output of `git -C {wt} diff -- src` (only source changes).
2. demo.py     - a small self-contained program, run as `PYTHONPATH=<tree>/src /venv/bin/python demo.py`, that exercises the library so that it exits with status 0 and prints "PROPERTY HOLDS" on the UNCHANGED tree, and exits with status 1 and prints "PROPERTY VIOLATED: <what>" on the tree WITH your change. It must test the property as stated (not an implementation detail), be deterministic, finish in under a minute, write only under /tmp (and clean up after itself), and use data it generates itself or the recorded files, which it must reference by the absolute path /repo/tests/data/... (read-only; identical to {wt}/tests/data).
3. meta.json   - {{"property": "{pid}", "summary": "<one sentence: what the change does>", "needs": "<what specific sequence/input/fault/configuration is needed for it to manifest>", "files_changed": [...], "tests": "<last line of the pytest output with the change>", "demo_with_change": "<exit status and last line>", "demo_without_change": "<exit status and last line>"}}

VERIFY BEFORE YOU FINISH: (a) with the change: the full test suite passes (176 passed) and demo.py exits 1; (b) without the change (save `git -C {wt} diff -- src > {wt}/SEED/patch.diff` and toggle it with `git -C {wt} apply -R {wt}/SEED/patch.diff` / `git -C {wt} apply {wt}/SEED/patch.diff`): demo.py exits 0. Leave the worktree WITH the change applied and the SEED directory filled in. In your final message report the summary, what is needed to manifest, and the results of (a) and (b).'''


def main():
    rnd = int(sys.argv[1])
    root = sys.argv[2] if len(sys.argv) > 2 else "/tmp/wt"
    for line in open('/verif/properties.jsonl'):
        p = json.loads(line)
        pid = p['id']
        wt = f'{root}/{pid}'
        rec = {k: p[k] for k in ('id', 'title', 'statement', 'quantifier',
                                 'why_tests_cant', 'anchors')}
        used = []
        for r in range(1, rnd):
            try:
                m = json.load(open(f'/verif/seeded/agent-{pid}-{r}/meta.json'))
            except OSError:
                continue
            used.append(f'  {r}. "{m.get("summary", "")}"')
        open(f'{root}/prompt{rnd}_{pid}.txt', 'w').write(
            T.format(wt=wt, pid=pid, prop=json.dumps(rec, indent=1),
                     used="\n".join(used)))
    print("prompts written")


if __name__ == "__main__":
    main()
