#!/usr/bin/env python3
"""Compile seeded/MATRIX.md: which check catches which seeded change
(from seeded/*/meta.json and the results.txt written by seedtest.py)."""
import json
import os
import re

ROOT = os.path.join(os.path.dirname(os.path.dirname(os.path.abspath(__file__))), "seeded")
rows = []
retired = []
for d in sorted(os.listdir(ROOT)):
    p = os.path.join(ROOT, d)
    if not os.path.isdir(p) or not os.path.exists(os.path.join(p, "meta.json")):
        continue
    m = json.load(open(os.path.join(p, "meta.json")))
    if m.get("retired"):
        retired.append((d, m["retired"]))
        continue
    res = open(os.path.join(p, "results.txt")).read() if os.path.exists(os.path.join(p, "results.txt")) else ""
    runs = re.findall(r"check (C\d+) tier=(\w+) exit=(\d+) violations=(\d+)[^\n]*?((?:clause=[\w-]+ )?)", res)
    first, last = {}, {}
    for c, tier, ex, nv, _ in runs:
        first.setdefault(c, ex)
        last[c] = ex
    clauses = {}
    for line in res.splitlines():
        mm = re.match(r"check (C\d+) .*?exit=1 .*?clause=([\w-]+)", line)
        if mm:
            clauses[mm.group(1)] = mm.group(2)
    verified = "yes" if '"ok": true' in res else ("no" if '"ok": false' in res else "-")
    caught_first = sorted(c for c, e in first.items() if e == "1")
    caught_last = sorted(c for c, e in last.items() if e == "1")
    missed_first = sorted(c for c, e in first.items() if e != "1")
    summ = (m.get("summary") or m.get("origin") or "").replace("|", "/").replace("\n", " ")
    needs = (m.get("needs") or "").replace("|", "/").replace("\n", " ")
    rows.append((d, m.get("property", "?"), summ[:230], needs[:200], verified,
                 ", ".join(caught_first) or "-",
                 ", ".join(f"{c} ({clauses.get(c, '')})" for c in caught_last) or "-",
                 ", ".join(c for c in missed_first if c not in caught_last) or "-"))
out = ["| seed | property | change (abridged) | needs | confirmed (tests green, demo red/green) | caught on first run by | caught now by (clause) | runs that stay silent |",
       "|---|---|---|---|---|---|---|---|"]
for r in rows:
    out.append("| " + " | ".join(r) + " |")
if retired:
    out += ["", "Retired seeds (kept for the record, not counted):", ""]
    out += [f"* {d}: {why}" for d, why in retired]
open(os.path.join(ROOT, "MATRIX.md"), "w").write("\n".join(out) + "\n")
n = len(rows)
nf = sum(1 for r in rows if r[5] != "-")
nl = sum(1 for r in rows if r[6] != "-")
print(f"{n} seeds, caught on first run: {nf}, caught now: {nl}")
