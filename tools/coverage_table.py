#!/usr/bin/env python3
"""Print the coverage table of DESIGN 11.2 from evidence/*.json (the last
run of every check)."""
import json
import os

ROOT = os.path.dirname(os.path.dirname(os.path.abspath(__file__)))
print("| id | tier | states | transitions | evaluations / other | wall |")
print("|---|---|---|---|---|---|")
for i in range(1, 21):
    pid = f"C{i:02d}"
    d = json.load(open(os.path.join(ROOT, "evidence", pid + ".json")))
    c = d["coverage"]
    other = {k: v for k, v in c.items()
             if isinstance(v, (int, float)) and not isinstance(v, bool)
             and k not in ("states", "transitions",
                           "traces_validated_against_impl")}
    oth = ", ".join(f"{k} {v}" for k, v in list(other.items())[:4])
    print(f"| {pid} | {d['tier']} | {c.get('states', '-')} | "
          f"{c.get('transitions', '-')} | {oth} | {d['wall_s']:.0f} s |")
