#!/usr/bin/env python3
"""Run registered checks against /repo with a seeded change applied.

usage: tools/seedtest.py <seeded/ID dir> [--verify] [--tier quick] C03 C10 ...

--verify : first confirm the seed itself in a scratch worktree (outside
           /repo and /verif): the patch applies, the unedited test suite
           passes, demo.py fails with the change and passes without it.
The patch is applied to /repo's working tree (git apply), the checks are
run, and the tree is restored (git checkout -- .) in a finally block.
Results are appended to <dir>/results.txt.
"""
import json
import os
import subprocess
import sys
import tempfile
import time


def sh(cmd, **kw):
    return subprocess.run(cmd, shell=True, text=True, capture_output=True,
                          **kw)


def verify(seed):
    patch = os.path.abspath(os.path.join(seed, "patch.diff"))
    demo = os.path.abspath(os.path.join(seed, "demo.py"))
    wt = tempfile.mkdtemp(prefix="seedverify_", dir="/tmp")
    os.rmdir(wt)
    out = {}
    try:
        r = sh(f"git -C /repo worktree add -q --detach {wt} HEAD")
        assert r.returncode == 0, r.stderr
        sh(f"cp /repo/src/nanite/_version.py {wt}/src/nanite/")
        env = dict(os.environ, PYTHONPATH=f"{wt}/src")
        txt = open(demo).read()
        d0 = sh(f"/venv/bin/python {demo}", env=env, cwd=wt)
        out["demo_without_change"] = (d0.returncode,
                                      (d0.stdout.strip().splitlines()
                                       or [""])[-1][:200])
        r = sh(f"git -C {wt} apply {patch}")
        assert r.returncode == 0, "patch does not apply: " + r.stderr
        for attempt in (1, 2):
            t = sh("/venv/bin/python -m pytest -q -p no:cacheprovider -n 8 "
                   "-rf tests 2>&1 | grep -E '^FAILED|passed|failed' "
                   "| tail -4", env=env, cwd=wt)
            lines = t.stdout.strip().splitlines()
            out["tests_with_change"] = lines[-1] if lines else ""
            failed = [ln for ln in lines if ln.startswith("FAILED")]
            if failed:
                # (one test of the suite fails sporadically under load;
                # the name is recorded and the suite is run once more)
                out.setdefault("tests_failed_once", []).extend(failed)
            if "176 passed" in out["tests_with_change"]:
                break
        d1 = sh(f"/venv/bin/python {demo}", env=env, cwd=wt)
        out["demo_with_change"] = (d1.returncode,
                                   (d1.stdout.strip().splitlines()
                                    or [""])[-1][:200])
    finally:
        sh(f"git -C /repo worktree remove --force {wt}")
    out["ok"] = (out.get("demo_without_change", [1])[0] == 0
                 and out.get("demo_with_change", [0])[0] != 0
                 and "176 passed" in out.get("tests_with_change", ""))
    return out


def main():
    args = sys.argv[1:]
    seed = args.pop(0).rstrip("/")
    do_verify = "--verify" in args
    tier = "quick"
    if "--tier" in args:
        tier = args[args.index("--tier") + 1]
    checks = [a for a in args if a.startswith("C") and a[1:].isdigit()]
    patch = os.path.abspath(os.path.join(seed, "patch.diff"))
    log = []
    if do_verify:
        v = verify(seed)
        log.append("verify: " + json.dumps(v))
        print(log[-1])
        if not v["ok"]:
            print("SEED NOT CONFIRMED")
    st = sh("git -C /repo status --porcelain --untracked-files=no")
    assert st.stdout.strip() == "", "/repo is not clean:\n" + st.stdout
    r = sh(f"git -C /repo apply {patch}")
    assert r.returncode == 0, "patch does not apply to /repo: " + r.stderr
    try:
        for c in checks:
            t0 = time.time()
            p = sh(f"./check {c} --tier {tier}", cwd="/verif")
            lines = p.stdout.strip().splitlines()
            viol = [ln for ln in lines if ln.startswith("VIOLATION")]
            clauses = [ln.strip() for ln in lines
                       if ln.strip().startswith("clause=")]
            msg = (f"check {c} tier={tier} exit={p.returncode} "
                   f"violations={len(viol)} wall={time.time() - t0:.0f}s "
                   f"{' | '.join(clauses[:4])}")
            log.append(msg)
            print(msg)
    finally:
        sh("git -C /repo checkout -- .")
    with open(os.path.join(seed, "results.txt"), "a") as fd:
        fd.write(time.strftime("%Y-%m-%d %H:%M:%S") + "\n"
                 + "\n".join(log) + "\n")


if __name__ == "__main__":
    main()
